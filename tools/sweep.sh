#!/bin/bash
# usage: sweep.sh "<seeds>" "<props>" [budget] [tier]   - false-alarm soak on the unchanged tree
cd "$(dirname "$0")/.."
for s in $1; do for p in $2; do
  out=$(VERIF_SEED=$s VERIF_CANARIES=0 VERIF_NO_EVIDENCE=1 VERIF_BUDGET_S=${3:-45} timeout 3600 /venv/bin/python dst/run.py $p ${4:-quick} 2>&1 | grep -v "^WARNING" | grep -E "VIOLATION|runs=|HARN|^violation")
  echo "== seed=$s $p"; echo "$out" | cut -c1-400
done; done
