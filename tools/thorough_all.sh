#!/bin/bash
# usage: thorough_all.sh [seed] - soak every check in the thorough tier (no evidence written)
cd "$(dirname "$0")/.."
for p in C03 C07 C10 C13 C14 C17; do
  echo "== thorough $p seed=${1:-0}"
  VERIF_SEED=${1:-0} VERIF_CANARIES=0 VERIF_NO_EVIDENCE=1 timeout 3600 /venv/bin/python dst/run.py $p thorough 2>&1 | grep -v "^WARNING" | grep -E "VIOLATION|runs=|HARN|^violation|KNOWN" | cut -c1-500
done
