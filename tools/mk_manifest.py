#!/venv/bin/python
"""Writes /verif/MANIFEST.json from the tables below and validates it."""
import json
import os

ROOT = os.path.dirname(os.path.dirname(os.path.abspath(__file__)))
PY = '/venv/bin/python'

COMMON_NOTE = (
    'Trusted base: the harness (dst/), CPython, numpy, openpyxl, schedula; '
    'formula semantics (Excel function behaviour) are not judged - the '
    'fixed-point oracle evaluates each cell\'s own formula with the '
    'library\'s stand-alone compiler. Sampling over seeds, not enumeration; '
    'every run is replayable from its seed and the violation is reported with '
    'a minimised trace.')

CHECKS = {
    'C03': {
        'category': 'exploration',
        'text': 'Seeded deterministic simulation of model construction: the '
                'same abstract workbook is built along several schedules '
                '(dictionary item order, book/sheet order, lazy root '
                'completion, interleaved loader actors, compile-future '
                'completion order, assemble knob, placement/renaming, '
                'recalculation) in interpreters with different '
                'PYTHONHASHSEED; every cell is checked against a stand-alone '
                'fixed-point oracle and an independent reference evaluator, '
                'and all schedules must agree bit for bit.',
        'design_ref': 'DESIGN.md 4.1',
        'technique': 'deterministic simulation: seeded schedule search over '
                     'load paths, orders and hash seeds with fixed-point and '
                     'reference-model oracles',
    },
    'C07': {
        'category': 'exploration',
        'text': 'Seeded histories on one long-lived model: up to 8 '
                'operations (calculations with other overrides, a '
                'calculation aborted part-way by an injected failure of a '
                'user function, compile+call, to_dict, writes to fresh / '
                'loaded books / simulated disk, deepcopy, finish again) '
                'precede an observed calculate(inputs, outputs); the result '
                'must equal a fresh model\'s (differential), satisfy the '
                'fixed point with the overridden cells pinned, equal the '
                'alias-free form of the inputs and be unchanged by the '
                'outputs restriction.',
        'design_ref': 'DESIGN.md 4.2',
        'technique': 'deterministic simulation: seeded operation/fault '
                     'histories against a fresh-model differential oracle '
                     'and a pinned fixed-point oracle',
    },
    'C10': {
        'category': 'exploration',
        'text': 'Seeded cyclic workbooks (strict and lazy back edges through '
                'cells, ranges, names) built along several schedules under '
                'several PYTHONHASHSEED values with finish(circular=True), '
                'under a step budget; judged clause by clause against a '
                'labelled dependency graph with brute-force cycle '
                'enumeration and a lazy reference evaluator; plus '
                'simple_cycles vs brute force on ALL digraphs with <= 4 '
                'nodes (16 slices) and random graphs to 9 nodes under '
                'several insertion orders.',
        'design_ref': 'DESIGN.md 4.3',
        'technique': 'deterministic simulation: seeded schedule and hash-seed '
                     'search with graph / reference-model oracles; exhaustive '
                     'small-graph sub-batch for the cycle analysis',
    },
    'C13': {
        'category': 'exploration',
        'text': 'Seeded histories of evaluations under a virtual clock and a '
                'seeded RNG: a workbook with NOW/TODAY/RAND/RANDBETWEEN at '
                'random depth is turned into several executables (model, '
                'JSON re-import, deepcopy, dill, ExcelModel.compile results '
                'and their copies, single compiled formulas) evaluated 2-6 '
                'times each in a seeded interleaving; the clock advances on '
                'every read (crossing midnight inside a calculation) and '
                'jumps to unused days, forwards or backwards, between '
                'evaluations. Every clock cell must equal its own formula '
                'at a clock reading taken during that very evaluation '
                '(decided exactly), RAND-injective cells must change, '
                'ranges/integrality hold, dependents equal their formula on '
                'the observed volatile value.',
        'design_ref': 'DESIGN.md 4.4',
        'technique': 'deterministic simulation: virtual clock and seeded RNG '
                     'behind module seams, seeded interleaving of '
                     'evaluations over executables, clock-reading oracle',
    },
    'C14': {
        'category': 'fault_enumeration',
        'text': 'Fault enumeration inside the simulator: for each seeded '
                'multi-book workbook every subset of its fault points '
                '(unreadable / absent satellite file with one of 10 '
                'disk-fault kinds injected at the in-memory disk seam, '
                'absent sheet, undefined name, unknown or _xlfn. function, '
                '#REF! literal) is executed when there are <= 4 (quick) / 6 '
                '(thorough) points, a seeded sample otherwise; the root book '
                'is loaded and finish() meets the faults in work-list order; '
                'each execution is compared with the fault-free twin: no '
                'abort, independent cells identical, direct users show the '
                'stated error kind, strict dependents are errors, every '
                'formula cell is a fixed point of its own formula on the '
                'observed values (judges IFERROR/ISERROR interception); a '
                'second configuration makes the disk faults transient '
                '(may fail, never wrong data).',
        'design_ref': 'DESIGN.md 4.5',
        'technique': 'deterministic simulation with fault injection: '
                     'enumeration of fault subsets at the disk / sheet / '
                     'name / function seams against a fault-free twin',
    },
    'C17': {
        'category': 'exploration',
        'text': 'Seeded interleavings of client actors over objects of one '
                'lineage (model, deepcopy, dill round trip, copies of '
                'copies, compiled functions and their copies; acyclic and '
                'circular workbooks, dictionary and file path): copies are '
                'taken at scheduler-chosen points, every observed '
                'calculation / call is compared with a fresh object built '
                'from the observed object\'s lineage (differential through '
                'the real code), and copy vs source on three input sets '
                'right after copying.',
        'design_ref': 'DESIGN.md 4.6',
        'technique': 'deterministic simulation: seeded interleaving of '
                     'operations on original and copies against a '
                     'fresh-lineage differential oracle',
    },
}

NOT_APPLICABLE = {
    'C01': 'pure function of the formula string (parse tree / precedence / '
           'canonical text): no schedule, clock, fault or history to simulate',
    'C02': 'pure function of two operand values (scalar operator semantics)',
    'C04': 'pure function of reference text and host cell (spelling -> '
           'canonical id)',
    'C05': 'pure function of argument arrays and destination shape',
    'C06': 'pure function of two rectangle sets and cell contents',
    'C08': 'differential over (workbook, arguments); nothing in it varies '
           'with order, time or faults; compiled functions are exercised as '
           'operations inside C07/C13/C17 histories but not judged there',
    'C09': 'pure function of the model (export/import round trip); the '
           'dictionary-order dimension is covered under C03',
    'C11': 'pure function of (function name, arguments)',
    'C12': 'pure function of arguments (function library vs Excel '
           'definitions)',
    'C15': 'differential over (workbook, output set); sorted work-list, '
           'fault-free reads: no schedule or fault in the statement (lazy '
           'pull-in is exercised as a load path in C03 and as the fault '
           'surface of C14)',
    'C16': 'pure function of (model, solution); its only I/O is a fault-free '
           'save/load and the statement says nothing about disk faults',
    'C18': 'pure function of the input string (parser totality)',
    'C19': 'pure function of arguments (lookup / criteria functions)',
    'C20': 'pure functions over finite domains; the right tool is exhaustive '
           'enumeration, not simulation',
}


def main():
    checks = []
    for pid in sorted(CHECKS):
        c = CHECKS[pid]
        checks.append({
            'property_id': pid,
            'quick_cmd': '%s dst/run.py %s quick' % (PY, pid),
            'thorough_cmd': '%s dst/run.py %s thorough' % (PY, pid),
            'evidence_file': '/verif/evidence/%s.json' % pid,
            'replay_cmd_template': '%s dst/run.py --replay {path}' % PY,
            'engine': 'dst',
            'level_claimed': {'category': c['category'], 'text': c['text'],
                              'design_ref': c['design_ref']},
            'level_note': c.get('note', COMMON_NOTE),
            'technique': c['technique'],
        })
    man = {
        'version': 1,
        'setup_cmd': '%s dst/run.py --selftest --brief' % PY,
        'hooks': {
            'guard': 'FORMULAS_VERIF',
            'enable': 'none needed: every seam is an existing module '
                      'attribute looked up at call time, an overridable '
                      'method, a public registry, PYTHONHASHSEED or a '
                      'constructor argument; checks import /repo\'s working '
                      'tree directly (no build step)',
            'baseline_off_cmd': 'cd /repo && /venv/bin/python -m pytest -ra '
                                '-q -p no:cacheprovider --timeout=900 '
                                '--continue-on-collection-errors',
            'source_commits': [],
            'add_only': True,
        },
        'engines': [{
            'name': 'dst', 'path': '/verif/dst',
            'serves_properties': sorted(CHECKS),
            'kind_free_text': 'deterministic simulator with fault injection: '
                              'seeded world/schedule/fault generator, '
                              'persistent worker interpreters (one '
                              'PYTHONHASHSEED each), in-memory disk, virtual '
                              'clock, lazy executor, failing user function, '
                              'own shrinker and replay files',
        }],
        'checks': checks,
        'not_applicable': [{'property_id': k, 'reason': NOT_APPLICABLE[k]}
                           for k in sorted(NOT_APPLICABLE) if k not in CHECKS],
        'notes': 'See DESIGN.md. KNOWN_FINDINGS.txt lists recorded and fixed '
                 'findings.',
    }
    path = os.path.join(ROOT, 'MANIFEST.json')
    with open(path, 'w') as f:
        json.dump(man, f, indent=1)
    try:
        import jsonschema
        jsonschema.validate(man, json.load(
            open('/root/.vp/MANIFEST.schema.json')))
        print('MANIFEST.json valid; claimed:', sorted(CHECKS))
    except ImportError:
        print('MANIFEST.json written (jsonschema not available here)')


if __name__ == '__main__':
    main()
