#!/bin/bash
# usage: try_mutant.sh <patch.diff> <Cxx> [budget_s] [tier]
# Applies the patch to a scratch worktree of /repo (outside /repo and /verif),
# runs the property's check against it, removes the worktree.
set -u
patch=$(readlink -f "$1"); prop=$2; budget=${3:-45}; tier=${4:-quick}
wt=/tmp/mv-$$-$RANDOM
git -C /repo worktree add -q "$wt" HEAD || exit 3
if ! git -C "$wt" apply "$patch"; then echo "PATCH DOES NOT APPLY"; git -C /repo worktree remove --force "$wt"; exit 3; fi
cd /verif
VERIF_REPO="$wt" VERIF_BUDGET_S=$budget VERIF_CANARIES=0 VERIF_NO_EVIDENCE=1 timeout 1800 /venv/bin/python dst/run.py "$prop" "$tier" 2>&1 | grep -v "^WARNING" | grep -E "^violation|VIOLATION|runs=|HARN|^  C[0-9]"
rc=${PIPESTATUS[0]}
git -C /repo worktree remove --force "$wt"
echo "exit=$rc"
exit $rc
