#!/venv/bin/python
"""usage: mk_agent_prompts.py <suffix>  - writes /tmp/agent-prompt-<Cxx>-<suffix>.txt for a
new round of independent seeded-change authors.  Each prompt holds the property
text, the template (tools/agent-prompt.tmpl) and the list of ideas already
used for that property (from seeded/*/meta.json) - nothing about the checks."""
import glob
import json
import sys

suffix = sys.argv[1]
props = {}
for l in open('/verif/properties.jsonl'):
    p = json.loads(l)
    props[p['id']] = (
        "Property %s: %s\n\nStatement: %s\n\nQuantifier: %s\n\nWhy the existing "
        "tests cannot settle it: %s\n\nCode anchors: files %s; mechanisms %s\n" % (
            p['id'], p['title'], p['statement'], p['quantifier']['text'],
            p['why_tests_cant'], p['anchors']['files'],
            json.dumps(p['anchors']['mechanism'])))
have = {}
for f in sorted(glob.glob('/verif/seeded/*/meta.json')):
    m = json.load(open(f))
    have.setdefault(m['breaks_property'], []).append(m['change'])
tmpl = open('/verif/tools/agent-prompt.tmpl').read()
for p in ('C03', 'C07', 'C10', 'C13', 'C14', 'C17'):
    hint = ("Focus for this round. Changes we ALREADY have for this property "
            "(do not repeat these ideas, and stay away from the exact lines "
            "they touch):\n" + "\n".join("  - " + c for c in have.get(p, [])) +
            "\nLook for mechanisms NOT in that list. Prefer subtle defects that "
            "need a multi-step history, a particular order, a particular "
            "PYTHONHASHSEED, a fault at a particular point or an unusual-but-"
            "legal input; two cooperating code sites that each look fine alone "
            "are especially welcome.")
    wt = '/tmp/mut-%s-%s' % (p, suffix)
    t = tmpl.replace('WORKTREE', wt).replace('PROPTEXT', props[p] + "\n" + hint + "\n")
    t = t.replace("formulas.__file__` starts with %s)" % wt,
                  "formulas.__file__` starts with %s); in demo scripts do NOT "
                  "hard-code that path: read the tree path from the environment "
                  "variable FORMULAS_TREE (default: the current working "
                  "directory)" % wt)
    t = t.replace("(about 70 s; those three deselected tests already fail on the "
                  "unchanged tree and are ignored). All remaining tests must pass "
                  "with your change.",
                  "(about 70 s; those three deselected tests already fail on the "
                  "unchanged tree and are ignored). NOTE: the third --deselect is "
                  "a prefix and also hides test_excel_model_compile, "
                  "test_excel_model_cycles and test_excel_model_full_range - run "
                  "those three explicitly as well (pytest test/test_excel.py -k "
                  "'compile or cycles or full_range'); they must pass. All "
                  "remaining tests must pass with your change.")
    open('/tmp/agent-prompt-%s-%s.txt' % (p, suffix), 'w').write(t)
print('ok')
