#!/bin/bash
# usage: confirm_mutant.sh <patch.diff> <demo.py> [PYTHONHASHSEED]
# Confirms in a scratch worktree: demo passes without the patch, fails with it,
# and the existing test-suite result is unchanged (759 passed, 3 known failures).
set -u
patch=$(readlink -f "$1"); demo=$(readlink -f "$2"); hs=${3:-}
wt=/tmp/cm-$$-$RANDOM
git -C /repo worktree add -q "$wt" HEAD || exit 3
cd "$wt"
run_demo() { export FORMULAS_TREE="$wt"; if [ -n "$hs" ]; then PYTHONHASHSEED=$hs PYTHONPATH="$wt" timeout 600 /venv/bin/python -W ignore "$demo" >/dev/null 2>&1; else PYTHONPATH="$wt" timeout 600 /venv/bin/python -W ignore "$demo" >/dev/null 2>&1; fi; echo $?; }
clean=$(run_demo)
git apply "$patch" || { echo "APPLY-FAILED"; git -C /repo worktree remove --force "$wt"; exit 3; }
mut=$(run_demo)
tests=$(timeout 2400 /venv/bin/python -m pytest -q -p no:cacheprovider --timeout=900 --continue-on-collection-errors 2>&1 | tail -1)
cd /; git -C /repo worktree remove --force "$wt"
echo "demo_clean_exit=$clean demo_mutant_exit=$mut tests=[$tests]"
