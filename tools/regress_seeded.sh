#!/bin/bash
# usage: regress_seeded.sh [budget]  - run every seeded change against the check that is meant to catch it
cd "$(dirname "$0")/.."
out=seeded/RESULTS.txt
echo "# seeded changes vs checks, /repo $(git -C /repo log --format=%h -n1), /verif $(git log --format=%h -n1), $(date -u +%FT%TZ)" > $out
for d in seeded/*/; do
  id=$(basename $d)
  prop=$(/venv/bin/python -c "import json;m=json.load(open('$d/meta.json'));print(m['detected_by_check'] if m['detected_by_check']!='none' else m['breaks_property'])")
  tier=$(/venv/bin/python -c "import json;m=json.load(open('$d/meta.json'));print(m.get('tier_needed','quick'))")
  if ! git -C /repo apply --check $(readlink -f $d/patch.diff) 2>/dev/null; then echo "$id $prop APPLY-FAILED" >> $out; continue; fi
  if [ "$tier" = "thorough" ]; then r=$(tools/try_mutant.sh $d/patch.diff $prop 400 thorough | tail -1); else r=$(tools/try_mutant.sh $d/patch.diff $prop ${1:-60} | tail -1); fi
  echo "$id check=$prop tier=$tier $r" >> $out
done
