"""Shared run-time pieces: building models along a schedule, event log."""
import logging
import warnings

from .rng import Rng, digest
from .seams import SimDisk, SimExecutor, make_sim_model
from .world import dict_items, xlsx_books
from .expr import Placement

logging.disable(logging.CRITICAL)
warnings.filterwarnings('ignore')


class EventLog:
    """History of public-API operations of one run (global sequence number)."""

    def __init__(self):
        self.events = []

    def add(self, actor, op, **kw):
        self.events.append([len(self.events), actor, op,
                            {k: kw[k] for k in sorted(kw)}])

    def digest(self):
        return digest(self.events)


def item_closure(world, chosen):
    """Smallest set of dictionary items (cells, then names) that holds
    ``chosen`` and everything its members refer to - every cell standing
    anywhere inside a referenced area, every name used."""
    from .world import Index
    from .expr import refs_of, rect_cells
    idx, nc = Index(world), len(world['cells'])
    out, stack = set(), list(chosen)
    while stack:
        k = stack.pop()
        if k in out:
            continue
        out.add(k)
        if k < nc:
            refs = refs_of(world['cells'][k].get('f') or ['n', 0])
        else:
            n = world['names'][k - nc]
            refs = [['nm', n['alias']]] if n.get('alias') is not None \
                else [n['t']]
        for x in refs:
            if x[0] == 'nm':
                stack.append(nc + x[1])
            else:
                for q in rect_cells(x):
                    o = idx.occupant(q)
                    if o is not None:
                        stack.append(o)
    return out


def build_dict_model(world, placement, order=None, compact=1, circular=False,
                     log=None, model_cls=None, split=None, mid_calc=False):
    """ExcelModel from a dictionary whose items are in ``order``.

    split=n: built in two stages, each closed with finish(); the first stage
    is the reference closure of the first n items of the order, so that
    nothing of it refers to the second."""
    from formulas import ExcelModel
    items = dict_items(world, placement)
    if order is None:
        order = list(range(len(items)))
    assert sorted(k for k in order if k < len(items)) == \
        list(range(len(items))), 'order must cover every item'
    order = [k for k in order if k < len(items)]
    if split and not world.get('vnames') and not world['names']:
        first = item_closure(world, order[:split])
        if len(first) < len(items):
            m = (model_cls or ExcelModel)()
            if log:
                log.add('loader', 'from_dict', n=len(first), stage=1)
            m.from_dict(dict(items[k] for k in order if k in first))
            if circular:
                m.finish(complete=False, circular=True)
            if mid_calc:
                m.calculate()
            if log:
                log.add('loader', 'from_dict', n=len(items) - len(first),
                        stage=2)
            m.from_dict(dict(items[k] for k in order if k not in first))
            if circular:
                m.finish(complete=False, circular=True)
            return m
    items = [items[k] for k in order]
    d = dict(items)
    m = (model_cls or ExcelModel)()
    if log:
        log.add('loader', 'from_dict', n=len(items), compact=compact)
    # Harness rule: the dictionary path always assembles inside from_dict.
    # from_dict(assemble=False) runs inverse_references() *before* a later
    # assemble() and thereby hides blank ranges behind names from it - an
    # API-usage artefact, not something C03 speaks about.  ``compact`` is
    # therefore a knob of the file path only.
    m.from_dict(d)
    if circular:
        m.finish(complete=False, circular=True)
    return m


def build_file_model(world, placement, sched, disk=None, circular=False,
                     log=None):
    """ExcelModel loaded from simulated .xlsx files along a file schedule.

    sched: {"mode": loads|root|actors, "book_order": [...], "sheet_orders":
    {b: [...]}, "exec_seed": int|None, "compact": k, "inter": [..]}
    """
    P = Placement(placement)
    own = disk is None
    if own:
        disk = SimDisk().install()
        for name, data in xlsx_books(
                world, placement, sched.get('sheet_orders'),
                extlinks=sched.get('extlinks', False)).items():
            disk.put(name, data)
    ex = None
    if sched.get('exec_seed') is not None:
        ex = SimExecutor(Rng(sched['exec_seed'], 'exec'))
    cls = make_sim_model(ex)
    m = cls()
    nb = len(world['books'])
    order = [b for b in sched.get('book_order') or range(nb) if b < nb]
    mode = sched.get('mode', 'loads')
    if mode == 'loads':
        if log:
            log.add('loader', 'loads', books=order)
        m.loads(*[disk.path(P.file(b)) for b in order])
    elif mode == 'root':
        if log:
            log.add('loader', 'load-root', book=order[0])
        m.load(disk.path(P.file(order[0])))
    elif mode == 'actors':
        # one loader actor per book: add_book, then one push per sheet; the
        # scheduler (sched['inter']) interleaves them
        actors = []
        for b in order:
            actors.append(_book_actor(m, disk, P, world, b, log))
        inter = Rng(sched.get('inter_seed', 0), 'inter')
        live = list(range(len(actors)))
        while live:
            k = inter.pick(live)
            try:
                next(actors[k])
            except StopIteration:
                live.remove(k)
    else:
        raise ValueError(mode)
    compact = sched.get('compact', 1)
    if sched.get('prefinish'):
        # finished in two steps: assemble and inverse links first, completion
        # of what the workbook refers to afterwards
        if log:
            log.add('loader', 'finish', complete=False)
        m.finish(complete=False)
    if log:
        log.add('loader', 'finish', compact=compact, circular=circular)
    if compact == 1:
        m.finish(circular=circular)
    else:
        m.complete()
        m.assemble(compact=compact)
        if circular:
            m.solve_circular()
        m.inverse_references()
    if ex is not None and log:
        log.add('executor', 'order', order=ex.order)
    return m, disk


def _book_actor(m, disk, P, world, b, log):
    book, ctx = m.add_book(disk.path(P.file(b)))
    if log:
        log.add('loader%d' % b, 'add_book')
    yield
    for ws in book.worksheets:
        m.push(ws, context=ctx)
        if log:
            log.add('loader%d' % b, 'push', sheet=ws.title)
        yield


def structure_digest(model):
    """Digest of the dispatcher's build order (node index sequence)."""
    import schedula as sh
    nodes = [(str(k), d.get('index', ())[-1] if d.get('index') else -1)
             for k, d in model.dsp.nodes.items()
             if not isinstance(k, sh.Token)]
    return digest([n for n, _ in nodes])
