"""Determinism self-test (also MANIFEST.setup_cmd).

Every seed is executed twice under each of four PYTHONHASHSEED values, across
16 worker processes and again in single fresh workers (worker count 1); the
(event-log digest, outcome digest, #violations) triples of repetitions under
one hash seed must be equal, and the harness-side event log must not depend on
the hash seed at all.  Also verifies that workers import formulas from /repo.
"""
import importlib
import os
import sys
import time

from .pool import Pool, Worker


def main(argv):
    brief = '--brief' in argv
    from .run import PROPS
    props = [p for p in PROPS if os.path.exists(os.path.join(
        os.path.dirname(__file__), 'props', p + '.py'))]
    n = 24 if brief else 500
    hs = [0, 1, 2, 3]
    t0 = time.time()
    bad = 0
    pool = Pool(hs, 16)
    try:
        print('selftest: workers=%d formulas=%s' % (
            len(pool.workers), pool.workers[0].ready['formulas']))
        for prop in props:
            res = {}
            for rep in range(2):
                for s in range(n):
                    for h in hs:
                        pool.submit(h, {'cmd': 'run', 'prop': prop,
                                        'seed': (977 << 24) + s,
                                        'tier': 'quick'})
            while pool.inflight:
                r = pool.get(timeout=300)
                if 'error' in r:
                    print('HARNESS-ERROR selftest %s: %s\n%s' % (
                        prop, r['error'], r.get('tb', '')))
                    return 2
                res.setdefault((r['seed'], r['hashseed']), []).append(
                    (r['events'], r['outcome'], len(r['violations'])))
            # worker count 1: a single fresh interpreter per hash seed
            for h in hs[:2]:
                w = Worker(h, tag='-solo')
                w.wait_ready()
                try:
                    for s in range(min(n, 12)):
                        r = w.call({'id': s, 'cmd': 'run', 'prop': prop,
                                    'seed': (977 << 24) + s, 'tier': 'quick'})
                        if 'error' in r:
                            print('HARNESS-ERROR selftest %s: %s\n%s' % (
                                prop, r['error'], r.get('tb', '')))
                            return 2
                        res[(r['seed'], r['hashseed'])].append(
                            (r['events'], r['outcome'], len(r['violations'])))
                finally:
                    w.close()
            mism = [k for k, v in res.items() if len(set(v)) > 1]
            ev = {}
            for (s, h), v in res.items():
                ev.setdefault(s, set()).add(v[0][0])
            hdep = [s for s, v in ev.items() if len(v) > 1]
            print('selftest %s: %d seeds x %d hash seeds x >=2 repetitions, '
                  'repetition mismatches=%d, hash-seed dependent event logs=%d'
                  % (prop, n, len(hs), len(mism), len(hdep)))
            bad += len(mism) + len(hdep)
    finally:
        pool.close()
    print('selftest wall=%.1fs' % (time.time() - t0))
    if bad:
        print('HARNESS-ERROR nondeterministic harness')
        return 2
    return 0
