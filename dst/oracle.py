"""Observation of a solution and the stand-alone fixed-point oracle.

Fixed-point oracle (DESIGN 2.7-1): for every formula cell k,
``observed[k] == F_k(observed values of the cells F_k refers to)`` where F_k is
the cell's own formula compiled stand-alone (``Parser().ast(text).compile()``)
and fed ``Ranges`` built by the harness from *observed cell values and blanks*.
Which cells a reference covers comes from the world description, not from the
model's range nodes.
"""
import functools

import numpy as np
import schedula as sh

from .expr import Placement, Renderer, refs_of, rect_cells
from .values import norm_scalar, norm_value, raw_value, MISSING
from .world import Index, cell_rect


class Observation:
    """Raw and normalised values of every populated cell / name of a world."""

    def __init__(self, world, placement, sol, loaded=None):
        self.world, self.P = world, Placement(placement)
        self.idx = Index(world)
        self.raw = {}     # cell index -> 2-D object array | None (missing)
        self.names = {}   # name index -> normalised nested list | MISSING
        P = self.P
        for i, c in enumerate(world['cells']):
            b, s, r1, c1, r2, c2 = cell_rect(c)
            key = P.rect_id(b, s, r1, c1, r2, c2)
            if key in sol and (loaded is None or key in loaded):
                self.raw[i] = raw_value(sol[key])
            else:
                self.raw[i] = None
        for k, n in enumerate(world['names']):
            key = P.name_id(n['b'], k)
            self.names[k] = norm_value(sol[key]) if key in sol else MISSING
        self.vnames = {}  # formula-valued names: raw value | None
        for k, n in enumerate(world.get('vnames', [])):
            key = P.vname_id(n['b'], k)
            self.vnames[k] = sol[key] if key in sol else None

    def cell_norm(self, i):
        a = self.raw[i]
        return MISSING if a is None else norm_value(a)

    def normal(self, names=True):
        d = {'c%d' % i: self.cell_norm(i)
             for i in range(len(self.world['cells']))}
        if names:
            for k, v in self.names.items():
                d['n%d' % k] = v
        return d

    def at(self, pos):
        """Raw scalar seen at a position (sh.EMPTY when unpopulated)."""
        i = self.idx.occupant(pos)
        if i is None:
            return sh.EMPTY
        a = self.raw[i]
        if a is None:
            return None
        c = self.world['cells'][i]
        r, col = pos[2] - c['at'][2], pos[3] - c['at'][3]
        if r >= a.shape[0] or col >= a.shape[1]:
            return None
        return a[r, col]

    def rect(self, ref):
        """2-D object array of raw scalars for a reference; None if any
        member is missing."""
        _, b, s, r1, c1, r2, c2 = ref
        out = np.empty((r2 - r1 + 1, c2 - c1 + 1), object)
        for r in range(r1, r2 + 1):
            for c in range(c1, c2 + 1):
                v = self.at((b, s, r, c))
                if v is None:
                    return None
                out[r - r1, c - c1] = v
        return out


@functools.lru_cache(4096)
def _compile(text):
    from formulas import Parser
    return Parser().ast(text)[1].compile()


class FixedPoint:
    def __init__(self, world, placement):
        self.world, self.placement = world, placement
        self.P = Placement(placement)
        self.R = Renderer(world, self.P, 'dict')

    def ref_table(self, expr):
        """{canonical id: ('r', ref) | ('nm', k)} for an expression."""
        t = {}
        from .expr import walk
        for x in walk(expr):
            if x[0] == 'vn':
                n = self.world['vnames'][x[1]]
                t[self.P.vname_id(n['b'], x[1])] = x
            if x[0] == 'w':
                t[self.P.whole_id(x)] = x
            if x[0] == 'an':
                t[self.P.cell_id(*x[1:5]) + '#'] = x
        for x in refs_of(expr):
            if x[0] == 'r':
                t[self.P.rect_id(*x[1:])] = x
            else:
                n = self.world['names'][x[1]]
                t[self.P.name_id(n['b'], x[1])] = x
        return t

    def expected(self, i, obs, pinned=None):
        """Value the formula of cell i yields on the observed inputs.

        Returns (status, nested-normalised-list | message).  status:
        'ok' | 'skip' (an input is missing) | 'oracle-error'.
        ``pinned``: {position: raw scalar} overriding observed inputs.
        """
        from formulas.ranges import Ranges
        from formulas.functions import replace_empty
        c = self.world['cells'][i]
        st, res = self.eval_expr(c['f'], (c['at'][0], c['at'][1]), obs,
                                 pinned)
        if st != 'ok':
            return st, res
        text = ''
        try:
            res = replace_empty(res)
            b, s, r1, c1, r2, c2 = cell_rect(c)
            out = Ranges().push(self.P.rect_id(b, s, r1, c1, r2, c2), res)
            return 'ok', norm_value(out)
        except Exception as ex:
            return 'oracle-error', 'fit cell %d: %r' % (i, ex)

    def eval_expr(self, expr, host, obs, pinned=None):
        """Raw result of an expression on the observed values:
        ('ok', value) | ('skip', why) | ('oracle-error', why)."""
        import schedula as sh
        from formulas.ranges import Ranges
        text = self.R.formula(expr, host)
        try:
            func = _compile(text)
        except Exception as ex:
            return 'oracle-error', 'compile %s: %r' % (text, ex)
        table = self.ref_table(expr)
        args = []
        for key in func.inputs:
            x = table.get(key)
            if x is None and getattr(func.inputs[key], 'ranges', None) and \
                    all(r['name'] in table and table[r['name']][0] == 'r'
                        for r in func.inputs[key].ranges):
                # union / intersection of references: one input made of
                # several areas, each fed with the observed values
                multi, miss = Ranges(func.inputs[key].ranges), False
                for r in multi.ranges:
                    ref = table[r['name']]
                    val = obs.rect(ref)
                    if val is None:
                        miss = True
                        break
                    if pinned:
                        for (b, s, rr, col), v in pinned.items():
                            if (b, s) == (ref[1], ref[2]) and \
                                    ref[3] <= rr <= ref[5] and \
                                    ref[4] <= col <= ref[6]:
                                val[rr - ref[3], col - ref[4]] = v
                    multi.values.update(
                        Ranges().push(r['name'], val).values)
                if miss:
                    return 'skip', 'missing input'
                args.append(multi)
                continue
            if x is None:
                return 'oracle-error', 'unmatched input %s of %s' % (key, text)
            if x[0] == 'vn':
                v = obs.vnames.get(x[1])
                if v is None:
                    return 'skip', 'missing name value'
                args.append(v)
                continue
            if x[0] == 'an':
                # the whole array anchored there; #REF! if no array formula is
                # anchored at that cell (or the reference could not be served)
                from formulas.tokens.operand import Error
                pos = tuple(x[1:5])
                o = Index(self.world).occupant(pos)
                c = self.world['cells'][o] if o is not None else None
                dead = pos + pos[2:] in getattr(obs, 'failed_rects', ()) or \
                    c is None or 'arr' not in c or tuple(c['at']) != pos
                val = None if dead else obs.rect(['r'] + list(cell_rect(c)))
                if not dead and val is None:
                    return 'skip', 'missing input'
                if dead or (hasattr(obs, 'gone_pos') and obs.gone_pos(pos)):
                    args.append(Ranges().push('A1:', np.asarray(
                        [[Error.errors['#REF!']]], object)))
                else:
                    args.append(Ranges().push(
                        self.P.rect_id(*cell_rect(c)), val))
                continue
            if x[0] == 'w':
                # the window's observed values inside an otherwise blank
                # sheet-wide strip
                ref = ['r'] + x[1:7]
                val = obs.rect(ref)
                if val is None:
                    return 'skip', 'missing input'
                row1, col1 = self.P.rc(x[1], x[2], x[3], x[4])
                if x[7] == 'row':
                    big = np.empty((val.shape[0], 16384), object)
                    big[:] = sh.EMPTY
                    big[:, col1 - 1:col1 - 1 + val.shape[1]] = val
                else:
                    big = np.empty((1048576, val.shape[1]), object)
                    big[:] = sh.EMPTY
                    big[row1 - 1:row1 - 1 + val.shape[0], :] = val
                args.append(Ranges().push(key, big))
                continue
            if x[0] == 'nm' and x[1] in getattr(obs, 'bad_names', ()):
                # undefined name (fault worlds): the library feeds the error
                from formulas.tokens.operand import Error
                args.append(Ranges().push('A1:', np.asarray(
                    [[Error.errors['#REF!']]], object)))
                continue
            ref = x if x[0] == 'r' else self.world['names'][x[1]]['t']
            val = obs.rect(ref)
            if val is None:
                return 'skip', 'missing input'
            if pinned:
                for (b, s, r, col), v in pinned.items():
                    if (b, s) == (ref[1], ref[2]) and ref[3] <= r <= ref[5] \
                            and ref[4] <= col <= ref[6]:
                        val[r - ref[3], col - ref[4]] = v
            args.append(Ranges().push(self.P.rect_id(*ref[1:]), val))
        try:
            res = func(*args)
        except sh.DispatcherError as ex:
            if isinstance(getattr(ex, 'ex', None), NotImplementedError):
                from formulas.tokens.operand import Error
                res = Error.errors['#NAME?']
            else:
                return 'oracle-error', 'eval %s: %r' % (text, ex)
        except Exception as ex:
            return 'oracle-error', 'eval %s: %r' % (text, ex)
        return 'ok', res

    def check(self, obs, pinned_cells=None, pinned=None, only=None):
        """Yield (cell index, clause, expected, got) for every deviation.

        pinned_cells: {cell index: nested normalised list} for overridden
        cells (they must equal the supplied value and are not re-evaluated).
        """
        from .values import tag_of_const
        stats = {'formula_checked': 0, 'const_checked': 0, 'skipped': 0,
                 'oracle_errors': []}
        bad = []
        for i, c in enumerate(self.world['cells']):
            if only is not None and i not in only:
                continue
            got = obs.cell_norm(i)
            if pinned_cells and i in pinned_cells:
                if got != pinned_cells[i]:
                    bad.append((i, 'pinned', pinned_cells[i], got))
                continue
            if 'f' not in c:
                exp = [[tag_of_const(c['v'])]]
                stats['const_checked'] += 1
                if got != exp:
                    bad.append((i, 'const', exp, got))
                continue
            if got == MISSING:
                bad.append((i, 'missing', None, got))
                continue
            st, exp = self.expected(i, obs, pinned)
            if st == 'ok':
                stats['formula_checked'] += 1
                if exp != got:
                    bad.append((i, 'fixpoint', exp, got))
            elif st == 'skip':
                stats['skipped'] += 1
            else:
                stats['oracle_errors'].append(exp)
        return bad, stats
