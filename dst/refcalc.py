"""RefCalc - a tiny independent reference evaluator (second opinion).

Vocabulary: numbers (small integers, binary fractions), text, logicals,
blanks; ``+ - *``, the six comparisons; ``SUM MAX MIN COUNT`` over references;
``IF IFS IFERROR IFNA ISERROR``; single-cell, range, cross-sheet, cross-book
and defined-name references.  Errors are one taint ``E`` (which error it is
belongs to properties that are not claimed).  Evaluation is *lazy* in IF / IFS
/ IFERROR / IFNA; re-entering a cell under evaluation yields ``INDET``
(indeterminate), which propagates strictly.

Array formulas and anything else outside the vocabulary make
``in_vocabulary()`` false; such worlds are judged by the fixed-point oracle
only.
"""
from .expr import walk, rect_cells
from .world import Index

class _Sentinel:
    def __init__(self, name):
        self.name = name

    def __repr__(self):
        return self.name


E = _Sentinel('E')          # any error value
INDET = _Sentinel('INDET')  # depends on a cell under evaluation (a cycle)
BLANK = None


def is_num(v):
    return isinstance(v, (int, float)) and not isinstance(v, bool)


def to_num(v):
    """Operand coercion for arithmetic."""
    if v is BLANK:
        return 0.0
    if isinstance(v, bool):
        return 1.0 if v else 0.0
    if is_num(v):
        return float(v)
    return E  # text (generators never emit numeric text)


def type_rank(v):
    if isinstance(v, bool):
        return 2
    if isinstance(v, str):
        return 1
    return 0


def compare(op, a, b):
    if a is BLANK:
        a = '' if isinstance(b, str) and not isinstance(b, bool) else \
            (False if isinstance(b, bool) else 0.0)
    if b is BLANK:
        b = '' if isinstance(a, str) and not isinstance(a, bool) else \
            (False if isinstance(a, bool) else 0.0)
    ra, rb = type_rank(a), type_rank(b)
    if ra != rb:
        c = -1 if ra < rb else 1
    else:
        if ra == 1:
            a, b = a.upper(), b.upper()
        c = (a > b) - (a < b)
    return {'>': c > 0, '<': c < 0, '=': c == 0, '>=': c >= 0, '<=': c <= 0,
            '<>': c != 0}[op]


class RefCalc:
    def __init__(self, world, overrides=None, lazy=True):
        self.world = world
        self.idx = Index(world)
        self.memo = {}
        self.stack = []
        self.lazy = lazy
        self.overrides = overrides or {}   # cell index -> value

    def in_vocabulary(self):
        ok_f = ('SUM', 'MAX', 'MIN', 'COUNT', 'IF', 'IFS', 'IFERROR', 'IFNA',
                'ISERROR')
        for c in self.world['cells']:
            if 'arr' in c:
                return False
            if 'f' in c:
                for x in walk(c['f']):
                    if x[0] == 'f' and x[1] not in ok_f:
                        return False
                    if x[0] == 'f' and x[1] in ('SUM', 'MAX', 'MIN', 'COUNT') \
                            and any(a[0] not in ('r', 'nm', 'u', 'x', 'w')
                                    for a in x[2:]):
                        return False
                    if x[0] == 'op' and x[1] not in ('+', '-', '*', '>', '<',
                                                     '=', '>=', '<=', '<>'):
                        return False
                    if x[0] in ('raw', 'vol', 'vn', 'arr', 'un'):
                        return False
        return True

    # ---- cells
    def cell(self, i):
        if i in self.overrides:
            return self.overrides[i]
        if i in self.memo:
            return self.memo[i]
        if i in self.stack:
            return INDET
        c = self.world['cells'][i]
        if 'f' not in c:
            v = c['v']
            v = float(v) if is_num(v) else v
        else:
            self.stack.append(i)
            try:
                v = self.ev(c['f'], top=True)
            finally:
                self.stack.pop()
            if v is BLANK:
                v = 0.0   # a formula yielding a blank reference shows 0
        if v is not INDET or not self.stack:
            self.memo[i] = v
        return v

    def at(self, pos):
        i = self.idx.occupant(pos)
        return BLANK if i is None else self.cell(i)

    def all_values(self):
        return [self.cell(i) for i in range(len(self.world['cells']))]

    # ---- expressions
    def ref_values(self, e):
        if e[0] == 'nm':
            e = self.world['names'][e[1]]['t']
        if e[0] == 'w':       # whole rows / columns: blank outside the window
            e = ['r'] + e[1:7]
        if e[0] == 'u':       # union: each area in turn (overlaps count twice)
            out = []
            for x in e[1:]:
                out.extend(self.ref_values(x))
            return out
        if e[0] == 'x':       # intersection of two rectangles of one sheet
            a, b = e[1], e[2]
            if (a[1], a[2]) != (b[1], b[2]):
                return [E]
            r1, c1 = max(a[3], b[3]), max(a[4], b[4])
            r2, c2 = min(a[5], b[5]), min(a[6], b[6])
            if r1 > r2 or c1 > c2:
                return [E]    # #NULL!
            return [self.at((a[1], a[2], r, c)) for r in range(r1, r2 + 1)
                    for c in range(c1, c2 + 1)]
        return [self.at(p) for p in rect_cells(e)]

    def scalar_of(self, e):
        """Value of a reference used where a scalar is expected."""
        vals = self.ref_values(e)
        if len(vals) != 1:
            raise NotImplementedError('range in scalar context')
        return vals[0]

    def ev(self, e, top=False):
        k = e[0]
        if k == 'n':
            return float(e[1])
        if k in ('s', 'b'):
            return e[1]
        if k == 'e':
            return E
        if k in ('r', 'nm'):
            return self.scalar_of(e)
        if k == 'op':
            a, b = self.ev(e[2]), self.ev(e[3])
            if a is INDET or b is INDET:
                # an error on the left wins over anything on the right
                return INDET
            if a is E or b is E:
                return E
            if e[1] in ('+', '-', '*'):
                a, b = to_num(a), to_num(b)
                if a is E or b is E:
                    return E
                return a + b if e[1] == '+' else a - b if e[1] == '-' else a * b
            return compare(e[1], a, b)
        if k == 'f':
            return self.call(e[1], e[2:])
        raise NotImplementedError(k)

    def truth(self, v):
        """IF condition -> True / False / E / INDET."""
        if v is INDET or v is E:
            return v
        if isinstance(v, bool):
            return v
        if v is BLANK:
            return False
        if is_num(v):
            return v != 0
        return E  # text condition

    def call(self, fn, args):
        if fn in ('SUM', 'MAX', 'MIN', 'COUNT'):
            vals = []
            for a in args:
                if a[0] in ('r', 'nm', 'u', 'x', 'w'):
                    vals.extend(self.ref_values(a))
                else:
                    raise NotImplementedError('aggregate over expression')
            if fn == 'COUNT':
                if any(v is INDET for v in vals):
                    return INDET
                return float(sum(1 for v in vals if is_num(v)))
            if any(v is INDET for v in vals):
                return INDET
            if any(v is E for v in vals):
                return E
            nums = [float(v) for v in vals if is_num(v)]
            if fn == 'SUM':
                return float(sum(nums))
            if not nums:
                return 0.0
            return max(nums) if fn == 'MAX' else min(nums)
        if fn == 'IF':
            c = self.truth(self.ev(args[0]))
            if c is INDET or c is E:
                return c
            if not self.lazy:
                a = self.ev(args[1])
                b = self.ev(args[2]) if len(args) > 2 else False
                if a is INDET or b is INDET:
                    return INDET
                return a if c else b
            if c:
                return self.ev(args[1])
            return self.ev(args[2]) if len(args) > 2 else False
        if fn == 'IFS':
            cs = [self.truth(self.ev(args[i]))
                  for i in range(0, len(args) - 1, 2)]
            if any(c is INDET for c in cs):
                return INDET   # every condition is consumed
            for i in range(0, len(args) - 1, 2):
                c = cs[i // 2]
                if c is INDET or c is E:
                    return c
                if c:
                    return self.ev(args[i + 1])
            return E
        if fn in ('IFERROR', 'IFNA'):
            v = self.ev(args[0])
            if v is INDET:
                return INDET
            if v is E:
                return self.ev(args[1])
            return v
        if fn == 'ISERROR':
            v = self.ev(args[0])
            if v is INDET:
                return INDET
            return v is E
        raise NotImplementedError(fn)

    # ---- comparison with the library
    @staticmethod
    def tag(v):
        if v is INDET:
            return 'indet'
        if v is BLANK:
            return 'blank'
        if isinstance(v, bool):
            return 'b:%d' % v
        if is_num(v):
            return 'n:' + repr(float(v) if v else 0.0)
        if v is E:
            return 'e:*'
        return 's:' + v

    @classmethod
    def agrees(cls, v, normal):
        """RefCalc value vs normalised library cell value ([[tag]])."""
        if normal == 'missing':
            return False
        t = normal[0][0] if len(normal) == 1 and len(normal[0]) == 1 else None
        if t is None:
            return False
        mine = cls.tag(v)
        if mine == 'e:*':
            return t.startswith('e:')
        return mine == t
