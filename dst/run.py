#!/venv/bin/python
"""Entry point of the deterministic-simulation checks.

  run.py <Cxx> quick|thorough      explore; exit 0 held / 1 VIOLATION / 2 harness
  run.py --replay <file>           re-execute a recorded trace
  run.py --selftest [--brief]      determinism self-test across workers/hashseeds

Environment: VERIF_SEED (batch seed, default 0), VERIF_TIER (alternative to the
positional tier), VERIF_BUDGET_S (wall budget of the exploration phase),
VERIF_RUNS (fixed number of runs instead of a wall budget), VERIF_WORKERS.
"""
import importlib
import json
import os
import queue
import sys
import time

HERE = os.path.dirname(os.path.abspath(__file__))
ROOT = os.path.dirname(HERE)
sys.path.insert(0, ROOT)

from dst.pool import Pool, one_shot, WorkerDied  # noqa: E402
from dst.rng import Rng, digest  # noqa: E402
from dst import evidence as ev  # noqa: E402

PROPS = ['C03', 'C07', 'C10', 'C13', 'C14', 'C17']
HASHSEEDS = [0, 1, 2, 3, 4, 5, 6, 7]
TIER = {
    'quick': {'budget': 45, 'H': 2},
    'thorough': {'budget': 600, 'H': 4},
}
REPLAY_DIR = os.path.join(ROOT, 'out', 'replays')


class HarnessError(Exception):
    pass


def load_known(prop):
    known, fixed = [], []
    path = os.path.join(ROOT, 'KNOWN_FINDINGS.txt')
    if os.path.exists(path):
        for line in open(path):
            line = line.strip()
            if not line or line.startswith('#'):
                continue
            kind, _, rest = line.partition(':')
            rest = rest.strip()
            fields = dict(f.split('=', 1) for f in rest.split() if '=' in f
                          and f.split('=', 1)[0] in ('property', 'sig'))
            if fields.get('property') != prop:
                continue
            if kind == 'known':
                what = rest.split(' ', 2)[2] if rest.count(' ') >= 2 else rest
                known.append({'sig': fields.get('sig'), 'what': what})
            elif kind == 'fixed':
                fixed.append(rest)
    return known, fixed


def hashseeds_for(seed, H, pool_hs):
    n = len(pool_hs)
    start = seed % n
    step = 1 + (seed // n) % (n - 1) if n > 1 else 1
    out = []
    k = start
    while len(out) < min(H, n):
        h = pool_hs[k % n]
        if h not in out:
            out.append(h)
        k += step
        if len(out) < H and k - start > n * n:
            break
    if 0 not in [int(x) for x in out] and seed % 3 == 0:
        out[-1] = pool_hs[0]
    return out


class Evaluator:
    """Runs explicit traces on workers with given hash seeds (shrinking)."""

    def __init__(self, pool, mod):
        self.pool, self.mod = pool, mod
        self.calls = 0

    def evaluate(self, trace, hashseeds):
        ids = {}
        for h in hashseeds:
            ids[self.pool.submit(h, {'cmd': 'exec', 'prop': self.mod.ID,
                                     'trace': trace})] = h
        res = {}
        while ids:
            r = self.pool.get(timeout=300)
            if r['id'] in ids:
                res[ids.pop(r['id'])] = r
        self.calls += 1
        viols = []
        for h in sorted(res):
            if 'error' in res[h]:
                raise HarnessError('worker error during evaluate: %s\n%s' % (
                    res[h]['error'], res[h].get('tb', '')))
            for v in res[h]['violations']:
                v = dict(v)
                v['hashseed'] = h
                viols.append(v)
        if len(res) > 1 and hasattr(self.mod, 'cross'):
            viols.extend(self.mod.cross(trace, res))
        return viols, res


def classify(mod, trace, v, known):
    """-> known-finding signature that covers v, or None."""
    sig = mod.signature(trace, v) if hasattr(mod, 'signature') else None
    if sig and any(k['sig'] == sig for k in known):
        return sig
    return None


def shrink(evalr, mod, trace, hashseeds, clause, ksig, known, deadline,
           log=print):
    """Greedy delta debugging: keep a candidate iff the same clause (and the
    same known/unknown class) still fails."""
    steps = 0
    improved = True
    while improved and time.time() < deadline:
        improved = False
        for desc, cand in mod.shrink_candidates(trace):
            if time.time() > deadline:
                break
            try:
                viols, _ = evalr.evaluate(cand, hashseeds)
            except HarnessError:
                continue
            ok = any(v['clause'] == clause and
                     classify(mod, cand, v, known) == ksig for v in viols)
            if ok:
                trace, improved = cand, True
                steps += 1
                log('  shrink: %s' % desc)
                break
    return trace, steps


def write_replay(prop, clause, trace, hashseeds, detail, seed, extra=None):
    os.makedirs(REPLAY_DIR, exist_ok=True)
    try:   # a human-readable rendering of the minimised case
        mod = importlib.import_module('dst.props.' + prop)
        readable = mod.sample(trace)
    except Exception:
        readable = None
    path = os.path.join(REPLAY_DIR, '%s-%s-%s.json' % (
        prop, seed, clause.replace('.', '_')))
    import formulas
    import schedula
    with open(path, 'w') as f:
        json.dump({
            'property': prop, 'clause': clause, 'seed': seed,
            'hashseeds': [str(h) for h in hashseeds], 'detail': detail,
            'versions': {'formulas': getattr(formulas, '__version__', '?'),
                         'schedula': getattr(schedula, '__version__', '?'),
                         'python': sys.version.split()[0]},
            'trace': trace, 'extra': extra or {}, 'readable': readable,
        }, f, indent=1, sort_keys=True)
    return path


def want_h(v, histories):
    h = v.get('hashseed')
    return [h] if h is not None else sorted(histories or {'0': None})


def run_sequence(prop, tier, hashseed, seeds, clause):
    """Execute run seeds in order in ONE fresh interpreter; the violations
    of the last run that carry ``clause`` (None: harness error)."""
    r = one_shot(hashseed, {'cmd': 'seq', 'prop': prop, 'tier': tier,
                            'seeds': list(seeds)})
    if 'error' in r:
        return None, r
    return [v for v in r['violations'] if v['clause'] == clause], r


def sequence_replay(prop, tier, v, rs, histories, log):
    """Replay file for a violation that needs the history of its interpreter:
    the (shortened) list of run seeds, executed in order from a fresh start."""
    h = v.get('hashseed')
    seeds = (histories or {}).get(h)
    if not seeds or seeds[-1] != rs:
        return None
    hit, r = run_sequence(prop, tier, h, seeds, v['clause'])
    if not hit:
        return None
    log('  needs the history of its interpreter (%d runs); shortening'
        % len(seeds))
    t_end = time.time() + 90
    changed = True
    while changed and len(seeds) > 1 and time.time() < t_end:
        changed = False
        n = len(seeds) - 1
        for cut in sorted({n, n // 2, n // 4, n // 8, 1} - {0},
                          reverse=True):
            cand = seeds[cut:]
            got, _ = run_sequence(prop, tier, h, cand, v['clause'])
            if got:
                seeds, changed = cand, True
                break
    k = 0
    while k < len(seeds) - 1 and len(seeds) <= 12 and time.time() < t_end:
        cand = seeds[:k] + seeds[k + 1:]
        got, _ = run_sequence(prop, tier, h, cand, v['clause'])
        if got:
            seeds = cand
        else:
            k += 1
    hit, r = run_sequence(prop, tier, h, seeds, v['clause'])
    if not hit:
        return None
    log('  shortest history found: run seeds %s' % seeds)
    path = write_replay(prop, v['clause'], r.get('trace'), [h],
                        hit[0]['detail'], '%s-history' % rs,
                        {'note': 'the last run fails only after the earlier '
                                 'runs of this list in the same interpreter'})
    rec = json.load(open(path))
    rec['sequence'] = {'hashseed': h, 'tier': tier, 'seeds': seeds}
    with open(path, 'w') as f:
        json.dump(rec, f, indent=1, sort_keys=True)
    return path


def replay(path, quiet=False):
    import builtins
    print = (lambda *a, **k: None) if quiet else builtins.print
    rec = json.load(open(path))
    prop = rec['property']
    mod = importlib.import_module('dst.props.' + prop)
    if rec.get('sequence'):
        sq = rec['sequence']
        hit, r = run_sequence(prop, sq['tier'], sq['hashseed'], sq['seeds'],
                              rec['clause'])
        if hit is None:
            print('HARNESS-ERROR replay worker: %s\n%s' % (
                r['error'], r.get('tb', '')))
            return 2
        for v in hit[:8]:
            print('  %s hashseed=%s %s' % (v['clause'], sq['hashseed'],
                                           v['detail'][:300]))
        print('history: run seeds %s in one interpreter' % sq['seeds'])
        if hit:
            print('VIOLATION property=%s replay=%s' % (prop, path))
            return 1
        print('replay: clause %s did not fail' % rec['clause'])
        return 0
    res = {}
    for h in rec['hashseeds']:
        r = one_shot(h, {'cmd': 'exec', 'prop': prop, 'trace': rec['trace']})
        if 'error' in r:
            print('HARNESS-ERROR replay worker: %s\n%s' % (
                r['error'], r.get('tb', '')))
            return 2
        res[h] = r
    viols = []
    for h in sorted(res):
        for v in res[h]['violations']:
            v = dict(v)
            v['hashseed'] = h
            viols.append(v)
    if len(res) > 1 and hasattr(mod, 'cross'):
        viols.extend(mod.cross(rec['trace'], res))
    hit = [v for v in viols if v['clause'] == rec['clause']]
    for v in viols[:8]:
        print('  %s hashseed=%s %s' % (v['clause'], v.get('hashseed', '*'),
                                       v['detail'][:300]))
    print('events: %s' % {h: res[h].get('events') for h in sorted(res)})
    if hit:
        print('VIOLATION property=%s replay=%s' % (prop, path))
        return 1
    print('replay: clause %s did not fail' % rec['clause'])
    return 0


def explore(prop, tier, seed, budget, fixed_runs, nworkers, quiet=False):
    mod = importlib.import_module('dst.props.' + prop)
    known, fixed = load_known(prop)
    cfg = dict(TIER[tier])
    cfg.update(getattr(mod, 'RUN', {}).get(tier, {}))
    H = cfg['H']
    if budget is None:
        budget = cfg['budget']
    t0 = time.time()
    print('VERIF_SEED=%d property=%s tier=%s budget=%ss workers=%d '
          'hashseeds/run=%d' % (seed, prop, tier, budget, nworkers, H))
    canaries = Canaries(prop, tier, seed)
    pool = Pool(HASHSEEDS, nworkers)
    t_ready = time.time()
    agg = ev.Aggregate(prop, tier, seed, mod)
    agg.hashseeds = [str(h) for h in HASHSEEDS]
    agg.workers = len(pool.workers)
    base = seed << 24
    pending = {}     # run seed -> {hashseed: result}
    want = {}        # run seed -> [hashseeds]
    det = {}         # determinism self-test: run seed -> [digests]
    det_n = 32
    violations = []  # (run_seed, violation, trace, hashseeds)
    errors = []
    next_i = 0
    deadline = t_ready + budget
    max_inflight = len(pool.workers) * 3
    stop_new = False
    hist = {}     # run seed -> {hashseed: seeds its worker had executed}
    unrepro = set()
    try:
        while True:
            now = time.time()
            more = (next_i < fixed_runs) if fixed_runs else (now < deadline)
            while more and not stop_new and pool.inflight < max_inflight:
                rs = base + next_i
                hs = hashseeds_for(rs, H, pool.hashseeds)
                want[rs] = hs
                pending[rs] = {}
                for h in hs:
                    pool.submit(h, {'cmd': 'run', 'prop': prop, 'seed': rs,
                                    'tier': tier,
                                    'want_trace': next_i < 3})
                if next_i < det_n:
                    for _ in range(2):
                        pool.submit(hs[0], {'cmd': 'run', 'prop': prop,
                                            'seed': rs, 'tier': tier,
                                            'det': True})
                next_i += 1
                more = (next_i < fixed_runs) if fixed_runs else \
                    (time.time() < deadline)
            if pool.inflight == 0:
                break
            try:
                r = pool.get(timeout=JOB_WAIT)
            except queue.Empty:
                raise HarnessError('no result within %ds' % JOB_WAIT)
            if 'error' in r:
                errors.append(r)
                if r.get('died') or len(errors) > 5:
                    raise HarnessError('%s\n%s' % (r['error'],
                                                   r.get('tb', '')))
                continue
            rs = r['seed']
            dg = (r['events'], r['outcome'], len(r['violations']))
            if rs - base < det_n:
                det.setdefault((rs, r['hashseed']), []).append(dg)
            if r['hashseed'] in pending.get(rs, {}) or rs not in pending:
                continue   # extra determinism run
            pending[rs][r['hashseed']] = r
            if len(pending[rs]) == len(want[rs]):
                res = pending.pop(rs)
                trace = next((x['trace'] for x in res.values()
                              if 'trace' in x), None)
                vs = []
                for h in sorted(res):
                    for v in res[h]['violations']:
                        v = dict(v)
                        v['hashseed'] = h
                        vs.append(v)
                if len(res) > 1 and hasattr(mod, 'cross'):
                    vs.extend(mod.cross(trace, res))
                agg.add_run(rs, res, trace)
                if vs:
                    if trace is None:
                        g = one_shot(want[rs][0], {
                            'cmd': 'gen', 'prop': prop, 'seed': rs,
                            'tier': tier})
                        trace = g['trace']
                    for v in vs:
                        ks = classify(mod, trace, v, known)
                        if ks:
                            agg.known_hit(ks)
                        else:
                            violations.append((rs, v, trace, want[rs]))
                            hist.setdefault(rs, {
                                h: res[h].get('worker_history')
                                for h in res})
                    if any(classify(mod, trace, v, known) is None
                           for v in vs):
                        if len({x[0] for x in violations}) >= 3:
                            stop_new = True
        t_explore = time.time()
        # late repetition: the first runs once more, now that every worker has
        # hundreds of other runs behind it - state leaking from one run into
        # the next (module-level caches in the code under test) shows up here
        late = {}
        for (rs, h), v in sorted(det.items())[:24]:
            late[pool.submit(h, {'cmd': 'run', 'prop': prop, 'seed': rs,
                                 'tier': tier})] = (rs, h)
        while late and pool.inflight:
            r = pool.get(timeout=JOB_WAIT)
            key = late.pop(r['id'], None)
            if key is None or 'error' in r:
                continue
            det[key].append((r['events'], r['outcome'],
                             len(r['violations'])))
        # determinism self-test verdict
        nondet = [k for k, v in det.items() if len(set(v)) > 1]
        agg.determinism = {
            'seeds_repeated': len({k[0] for k in det}),
            'executions_compared': sum(len(v) for v in det.values()),
            'mismatches': len(nondet)}
        if nondet and not violations:
            # (with violations at hand those are reported first: state leaking
            # between runs inside the code under test shows up here as well)
            raise HarnessError('nondeterministic harness: run seeds %s gave '
                               'different event logs on repetition' % (
                                   sorted(nondet)[:5],))
        if errors and not violations:
            raise HarnessError('%d worker job errors, first: %s\n%s' % (
                len(errors), errors[0]['error'], errors[0].get('tb', '')))
        # canaries (never influence the exit code)
        agg.canaries = canaries.join(60 if tier == 'quick' else 600)
        # violations: confirm, shrink, write replay files
        lines = []
        if violations:
            violations.sort(key=lambda x: (x[0], x[1]['clause']))
            seen = set()
            evalr = Evaluator(pool, mod)
            for rs, v, trace, hs in violations:
                if v['clause'] in seen or len(seen) >= 3:
                    continue
                seen.add(v['clause'])
                print('violation seed=%d clause=%s: %s' % (
                    rs, v['clause'], v['detail'][:400]))
                viols, _ = evalr.evaluate(trace, hs)
                if not any(x['clause'] == v['clause'] for x in viols):
                    # the outcome of this run depended on what its interpreter
                    # had executed before (state kept by the code under test):
                    # the worker's history is then part of the schedule
                    path = sequence_replay(prop, tier, v, rs, hist.get(rs),
                                           print)
                    if path is None:
                        # the oracle did see the violation, in two or more
                        # interpreters or not, but neither the trace nor the
                        # history of its interpreter brings it back: the code
                        # under test depends on something outside the seams
                        # (object addresses, allocator state).  Reported with
                        # the history as a best-effort replay, marked as such.
                        path = write_replay(
                            prop, v['clause'], trace, want_h(v, hist.get(rs)),
                            v['detail'], '%s-unreproducible' % rs,
                            {'note': 'observed once; not reproduced by '
                                     're-execution nor by the history of its '
                                     'interpreter %s' % (
                                         (hist.get(rs) or {}).get(
                                             v.get('hashseed')),)})
                        unrepro.add(path)
                        print('NOTE: %s at run seed %d was observed but does '
                              'not reproduce from a fresh interpreter: the '
                              'outcome depends on something outside the '
                              'seams' % (v['clause'], rs))
                    lines.append('VIOLATION property=%s replay=%s' % (
                        prop, path))
                    agg.violations += 1
                    continue
                small, steps = shrink(
                    evalr, mod, trace, hs, v['clause'], None, known,
                    time.time() + SHRINK_BUDGET.get(tier, 60),
                    log=(lambda s: None) if quiet else print)
                viols, _ = evalr.evaluate(small, hs)
                det_v = next((x for x in viols
                              if x['clause'] == v['clause']), None)
                if det_v is None:
                    # the code under test carries state from run to run: the
                    # minimised trace failed once and not again - report the
                    # trace as generated
                    small, steps, det_v = trace, 0, v
                path = write_replay(prop, v['clause'], small, hs,
                                    det_v['detail'], rs,
                                    {'shrink_steps': steps,
                                     'original_cells': len(
                                         trace.get('world', {}).get(
                                             'cells', []))})
                # the minimised trace must fail in FRESH interpreters too; if
                # only the unshrunk one does (shrinking happened in workers
                # that carry state of earlier runs), that one is the replay
                if os.environ.get('VERIF_NO_CONFIRM') != '1' and \
                        replay(path, quiet=True) != 1:
                    path = write_replay(
                        prop, v['clause'], trace, hs, v['detail'],
                        '%s-unshrunk' % rs, {'shrink_steps': 0,
                                             'note': 'minimised trace did '
                                             'not reproduce in a fresh '
                                             'process'})
                    if replay(path, quiet=True) != 1:
                        # not even the generated trace fails from a fresh
                        # start: the history of the interpreter is needed
                        sp = sequence_replay(prop, tier, v, rs, hist.get(rs),
                                             print)
                        if sp is not None:
                            path = sp
                lines.append('VIOLATION property=%s replay=%s' % (prop, path))
                agg.violations += 1
    finally:
        pool.close()
    agg.wall = time.time() - t0
    agg.explore_wall = t_explore - t_ready
    agg.known = known
    agg.fixed = fixed
    if os.environ.get('VERIF_NO_EVIDENCE') != '1':   # mutant trials
        agg.write()
    print(agg.summary())
    for k in known:
        print('KNOWN-FINDING: property=%s %s (observed=%d in this run)' % (
            prop, k['what'], agg.known_hits.get(k['sig'], 0)))
    if lines:
        # each replay is confirmed once more in fresh interpreters
        for ln in lines:
            rp = ln.split('replay=')[1]
            if rp in unrepro:
                print(ln)
                continue
            rc = replay(rp) if os.environ.get('VERIF_NO_CONFIRM') != '1' else 1
            if rc != 1:
                print('HARNESS-ERROR replay file %s did not reproduce in a '
                      'fresh process' % rp)
                return 2
        return 1
    return 0


JOB_WAIT = 400
SHRINK_BUDGET = {'quick': 60, 'thorough': 180}


CANARY_RUNS = {'quick': 150, 'thorough': 600}


class Canaries:
    """Runs every canary of a property in its own fresh interpreter, in
    parallel with the exploration; never influences the exit code."""

    def __init__(self, prop, tier, seed):
        import threading
        from dst.canary import PATCHES
        self.out = {}
        self.threads = []
        if os.environ.get('VERIF_CANARIES', '1') == '0':
            return
        for name in sorted(PATCHES.get(prop, {})):
            t = threading.Thread(target=self._one, args=(prop, name, tier,
                                                         seed), daemon=True)
            t.start()
            self.threads.append(t)

    def _one(self, prop, name, tier, seed):
        try:
            r = one_shot(0, {
                'cmd': 'canary', 'prop': prop, 'name': name, 'tier': tier,
                'seeds': [(seed << 24) + (1 << 20) + i
                          for i in range(CANARY_RUNS.get(tier, 100))]},
                extra_env={'DST_JOB_TIMEOUT': '900'})
            if 'error' in r:
                self.out[name] = {'detected': None, 'error': r['error']}
            else:
                self.out[name] = {k: r.get(k) for k in (
                    'detected', 'after_runs', 'how')}
        except Exception as ex:
            self.out[name] = {'detected': None, 'error': repr(ex)[:200]}

    def join(self, timeout):
        end = time.time() + timeout
        for t in self.threads:
            t.join(max(0.0, end - time.time()))
        return self.out


def main(argv):
    if len(argv) >= 2 and argv[0] == '--replay':
        return replay(argv[1])
    if argv and argv[0] == '--selftest':
        from dst import selftest
        return selftest.main(argv[1:])
    if not argv or argv[0] not in PROPS:
        print(__doc__)
        return 2
    prop = argv[0]
    tier = argv[1] if len(argv) > 1 else os.environ.get('VERIF_TIER', 'quick')
    if tier not in TIER:
        tier = 'quick'
    seed = int(os.environ.get('VERIF_SEED', '0') or 0)
    budget = os.environ.get('VERIF_BUDGET_S')
    budget = float(budget) if budget else None
    runs = int(os.environ.get('VERIF_RUNS', '0') or 0)
    nworkers = int(os.environ.get('VERIF_WORKERS', '16') or 16)
    try:
        return explore(prop, tier, seed, budget, runs, nworkers)
    except (HarnessError, WorkerDied) as ex:
        print('HARNESS-ERROR %s' % ex)
        return 2


if __name__ == '__main__':
    sys.exit(main(sys.argv[1:]))
