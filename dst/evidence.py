"""Evidence writer (EVIDENCE.schema.json): what a run actually covered."""
import json
import os

ROOT = os.path.dirname(os.path.dirname(os.path.abspath(__file__)))

COMPONENTS = {
    'real': ['formulas (all of /repo, imported from the working tree)',
             'schedula dispatcher', 'numpy', 'openpyxl reader and writer (on '
             'in-memory bytes)', 'copy / dill / json'],
    'stubbed': ['disk (SimDisk behind formulas.excel.xlreader.load_workbook)',
                'clock (SimClock as formulas.functions.date.datetime)',
                'RNG state (np.random.seed from the run seed; C13 also edits '
                'the MT19937 state so that one evaluation per run draws the '
                'largest double below 1 or 0.0)',
                'executor (lazy futures returned by compile_cell)',
                'user function SIMFAULT (get_functions registry)'],
}


def merge(dst, src):
    for k, v in src.items():
        if isinstance(v, bool):
            dst[k] = dst.get(k, 0) + int(v)
        elif isinstance(v, (int, float)):
            dst[k] = dst.get(k, 0) + v
        elif isinstance(v, dict):
            merge(dst.setdefault(k, {}), v)
        elif isinstance(v, list):
            lst = dst.setdefault(k, [])
            if len(lst) < 5:
                lst.extend(v[:5 - len(lst)])
        else:
            dst.setdefault(k, v)


class Aggregate:
    def __init__(self, prop, tier, seed, mod):
        self.prop, self.tier, self.seed, self.mod = prop, tier, seed, mod
        self.runs = 0
        self.executions = 0
        self.keys = set()
        self.stats = {}
        self.samples = []
        self.known_hits = {}
        self.violations = 0
        self.determinism = {}
        self.canaries = {}
        self.wall = self.explore_wall = 0.0
        self.hashseeds, self.workers = [], 0
        self.known, self.fixed = [], []
        self.first_seed = self.last_seed = None
        self.worker_wall = 0.0
        self.event_logs = set()

    def add_run(self, rs, res, trace):
        self.runs += 1
        self.executions += len(res)
        if self.first_seed is None:
            self.first_seed = rs
        self.last_seed = rs
        first = res[sorted(res)[0]]
        self.event_logs.add(first.get('events'))
        if first.get('case_keys') is not None:
            self.keys.update(first['case_keys'])
        elif first.get('nontrivial'):
            self.keys.add(first.get('case_key'))
        for h in sorted(res):
            merge(self.stats, res[h].get('stats', {}))
            self.worker_wall += res[h].get('wall', 0)
        if trace is not None and len(self.samples) < 3:
            s = self.mod.sample(trace) if hasattr(self.mod, 'sample') \
                else trace
            self.samples.append({'run_seed': rs, 'hashseeds': sorted(res),
                                 'case': s})

    def known_hit(self, sig):
        self.known_hits[sig] = self.known_hits.get(sig, 0) + 1

    def coverage(self):
        ew = max(self.explore_wall, 1e-9)
        cov = {
            'evaluations': self.executions,
            'distinct_nontrivial': len(self.keys),
            'rule': getattr(self.mod, 'RULE', ''),
            'samples': self.samples,
            'simulated_runs': self.runs,
            'distinct_event_logs': len(self.event_logs),
            'distinct_event_logs_measure': 'distinct digests of the per-run '
            'history of public-API operations (op kind, actor, arguments, '
            'global sequence number) = distinct interleavings / operation '
            'and fault sequences executed',
            'runs_per_hour': int(self.runs / ew * 3600),
            'executions_per_hour': int(self.executions / ew * 3600),
            'run_seeds': [self.first_seed, self.last_seed],
            'hash_seeds': self.hashseeds,
            'workers': self.workers,
            'stats': self.stats,
            'determinism_selftest': self.determinism,
            'canaries': self.canaries,
            'components': COMPONENTS,
            'known_findings_observed': self.known_hits,
            'known_findings_listed': [k['sig'] for k in self.known],
            'fixed_findings_listed': self.fixed,
        }
        if hasattr(self.mod, 'coverage_extra'):
            cov.update(self.mod.coverage_extra(self.stats))
        return cov

    def write(self):
        level = getattr(self.mod, 'LEVEL', 'exploration')
        doc = {
            'property_id': self.prop, 'tier': self.tier, 'seed': self.seed,
            'level': level, 'coverage': self.coverage(),
            'assumptions': getattr(self.mod, 'ASSUMPTIONS', []),
            'wall_s': round(self.wall, 2), 'violations': self.violations,
        }
        d = os.path.join(ROOT, 'evidence')
        os.makedirs(d, exist_ok=True)
        path = os.path.join(d, '%s.json' % self.prop)
        tmp = path + '.tmp'
        with open(tmp, 'w') as f:
            json.dump(doc, f, indent=1, sort_keys=True)
        os.replace(tmp, path)
        return path

    def summary(self):
        ew = max(self.explore_wall, 1e-9)
        return ('runs=%d executions=%d distinct_nontrivial=%d violations=%d '
                'known=%s runs/h=%d wall=%.1fs determinism=%s canaries=%s' % (
                    self.runs, self.executions, len(self.keys),
                    self.violations, self.known_hits,
                    int(self.runs / ew * 3600), self.wall, self.determinism,
                    self.canaries))
