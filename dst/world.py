"""Abstract workbook ("world") generation, placement and realisation.

A world is plain JSON:

  {"books": [[[h, w], ...sheets], ...books],
   "cells": [{"at": [b, s, r, c], "v": const} |
             {"at": [b, s, r, c], "f": expr} |
             {"at": [b, s, r, c], "f": expr, "arr": [h, w]}],
   "names": [{"b": b, "t": ref_expr, "avail": i}]}

const: number | string | bool.  Cells are listed in *creation order*, which is
a topological order unless the profile asked for back edges.
"""
import io

from .expr import Placement, Renderer, rect_cells, refs_of, walk

FILES = ['a.xlsx', 'b.xlsx', 'c.xlsx', 'Book2.xlsx', 'DATA.XLSX', 'my book.xlsx',
         'x1.xlsx', 'Zeta.xlsx']
SHEETS = ['S1', 'Data', 'my sheet', 'B 2', 'Sheet3', 'x_y', 'Calc', 'T-1',
          'alpha', 'Q4 2020', 'Growth %', '50% plan', "It's", "Bob's data"]
NAMES = ['NAME_A', 'RATE', 'Total_x', 'kappa', 'NAME_B', 'Zed', 'my_name',
         'LIMIT']

DEFAULT_PROFILE = {
    'max_books': 2, 'max_sheets': 2, 'win': 4, 'min_cells': 3, 'max_cells': 10,
    'p_formula': .65, 'p_arr': .12, 'p_name': .2, 'p_cross': .35,
    'p_text': .08, 'p_bool': .06, 'p_frac': .15, 'p_err': .05,
    'p_back': 0.0, 'depth': 2, 'p_alias': 0.0, 'p_arrlit': 0.0,
    'p_refop': 0.0,
    'w_ref': 5, 'w_num': 1, 'w_op': 4, 'w_aggr': 4, 'w_if': 2, 'w_iferror': 1,
    'w_iserror': .5, 'w_name': 1.5, 'w_ifs': 0, 'w_ifna': 0,
}


def profile(**kw):
    p = dict(DEFAULT_PROFILE)
    p.update(kw)
    return p


class Index:
    """Position bookkeeping of a world (pure function of the world)."""

    def __init__(self, world):
        self.world = world
        self.occ = {}
        for i, c in enumerate(world['cells']):
            for pos in cell_positions(c):
                self.occ[pos] = i

    def occupant(self, pos):
        return self.occ.get(tuple(pos))


def cell_positions(c):
    b, s, r, col = c['at']
    h, w = c.get('arr') or (1, 1)
    return [(b, s, r + i, col + j) for i in range(h) for j in range(w)]


def cell_rect(c):
    b, s, r, col = c['at']
    h, w = c.get('arr') or (1, 1)
    return (b, s, r, col, r + h - 1, col + w - 1)


# --------------------------------------------------------------- generation
def gen_const(rng, p):
    x = rng.random()
    if x < p['p_text']:
        return rng.pick(['x', 'ab', 'Hello', 'z z'])
    x -= p['p_text']
    if x < p['p_bool']:
        return rng.chance(.5)
    x -= p['p_bool']
    if x < p['p_frac']:
        return rng.randrange(-8, 40) / 8.0
    return rng.randrange(-3, 10)


class Gen:
    def __init__(self, rng, p):
        self.rng, self.p = rng, p
        self.world = None
        self.occ = {}

    # -- positions
    def sheets(self):
        return [(b, s) for b, bk in enumerate(self.world['books'])
                for s in range(len(bk))]

    def allowed(self, pos, i, back):
        j = self.occ.get(pos)
        if j is None:
            return True
        if back:
            return True
        return j < i

    def pick_cell(self, i, host, populated_bias=.85):
        """A single position usable by cell i (earlier or never populated)."""
        rng, p = self.rng, self.p
        back = rng.chance(p['p_back'])
        hb, hs = host
        for _ in range(12):
            if rng.chance(populated_bias):
                hi = len(self.world['cells']) if back else i
                cands = [c for c in self.world['cells'][:hi]]
                if not cands:
                    continue
                c = rng.pick(cands)
                pos = rng.pick(cell_positions(c))
            else:
                b, s = self.pick_sheet(host)
                h, w = self.world['books'][b][s]
                pos = (b, s, rng.randrange(h), rng.randrange(w))
            if (pos[0], pos[1]) != (hb, hs) and not rng.chance(p['p_cross']):
                continue
            if self.allowed(pos, i, back):
                return pos
        return None

    def pick_sheet(self, host):
        if self.rng.chance(self.p['p_cross']):
            return self.rng.pick(self.sheets())
        return host

    def pick_rect(self, i, host, shape=None):
        rng, p = self.rng, self.p
        back = rng.chance(p['p_back'])
        for _ in range(16):
            b, s = self.pick_sheet(host)
            h, w = self.world['books'][b][s]
            if shape:
                rh, rw = shape
                if rh > h or rw > w:
                    continue
            else:
                rh, rw = rng.pick([(1, 2), (2, 1), (2, 2), (1, 3), (3, 1),
                                   (2, 3), (3, 2), (1, 1), (3, 3)])
                rh, rw = min(rh, h), min(rw, w)
            r1, c1 = rng.randrange(h - rh + 1), rng.randrange(w - rw + 1)
            ref = ['r', b, s, r1, c1, r1 + rh - 1, c1 + rw - 1]
            if all(self.allowed(pos, i, back) for pos in rect_cells(ref)):
                return ref
        return None

    def pick_name(self, i, host, single):
        # (a name of ANOTHER workbook - spelt '[b.xlsx]'!NAME - with p_xname)
        other = self.rng.chance(self.p.get('p_xname', 0))
        ks = [k for k, n in enumerate(self.world['names'])
              if n['avail'] <= i and (n['b'] == host[0] or other)
              and (not single or n['t'][3:5] == n['t'][5:7])]
        return ['nm', self.rng.pick(ks)] if ks else None

    # -- expressions
    def scalar_ref(self, i, host):
        pos = self.pick_cell(i, host)
        if pos is None:
            return ['n', self.rng.randrange(0, 5)]
        b, s, r, c = pos
        return ['r', b, s, r, c, r, c]

    def range_arg(self, i, host):
        rng = self.rng
        if rng.chance(self.p.get('p_refop', 0)):
            a = self.pick_rect(i, host)
            if a is not None:
                # a second rectangle on the same sheet, overlapping or not
                for _ in range(8):
                    b2 = self.pick_rect(i, (a[1], a[2]))
                    if b2 is not None and (b2[1], b2[2]) == (a[1], a[2]):
                        return [rng.pick(['u', 'u', 'x']), a, b2]
        if rng.chance(self.p.get('p_arrlit', 0)):
            h, w = rng.pick([(1, 2), (2, 1), (2, 2), (1, 3)])
            return ['arr', [[rng.randrange(0, 9) for _ in range(w)]
                            for _ in range(h)]]
        if rng.chance(.2):
            nm = self.pick_name(i, host, single=False)
            if nm:
                return nm
        if rng.chance(.25):
            return self.scalar_ref(i, host)
        return self.pick_rect(i, host) or self.scalar_ref(i, host)

    def scalar(self, i, host, depth):
        rng, p = self.rng, self.p
        if depth <= 0:
            kind = rng.weighted([('ref', p['w_ref']), ('num', p['w_num']),
                                 ('name', p['w_name'])])
        else:
            kind = rng.weighted([
                ('ref', p['w_ref']), ('num', p['w_num']), ('op', p['w_op']),
                ('aggr', p['w_aggr']), ('if', p['w_if']),
                ('iferror', p['w_iferror']), ('iserror', p['w_iserror']),
                ('name', p['w_name']), ('ifs', p['w_ifs']),
                ('ifna', p['w_ifna']), ('concat', p.get('w_concat', 0)),
                ('istype', p.get('w_istype', 0)),
                ('textfn', p.get('w_textfn', 0)),
                ('engfn', p.get('w_engfn', 0)),
            ])
        d = depth - 1
        if kind == 'ref':
            return self.scalar_ref(i, host)
        if kind == 'num':
            return ['n', rng.randrange(0, 6)]
        if kind == 'name':
            return self.pick_name(i, host, single=True) or \
                self.scalar_ref(i, host)
        if kind == 'op':
            return ['op', rng.pick(['+', '-', '*', '+']),
                    self.scalar(i, host, d), self.scalar(i, host, d)]
        if kind == 'aggr':
            args = [self.range_arg(i, host)
                    for _ in range(1 if rng.chance(.7) else 2)]
            return ['f', rng.pick(['SUM', 'SUM', 'MAX', 'MIN', 'COUNT'])] + args
        if kind == 'if':
            return ['f', 'IF', self.guard(i, host, d),
                    self.scalar(i, host, d), self.scalar(i, host, d)]
        if kind == 'ifs':
            return ['f', 'IFS', self.guard(i, host, d), self.scalar(i, host, d),
                    self.guard(i, host, d), self.scalar(i, host, d)]
        if kind == 'iferror':
            return ['f', 'IFERROR', self.scalar(i, host, d),
                    self.scalar(i, host, d)]
        if kind == 'ifna':
            return ['f', 'IFNA', self.scalar(i, host, d),
                    self.scalar(i, host, d)]
        if kind == 'iserror':
            return ['f', 'ISERROR', self.scalar(i, host, d)]
        if kind == 'concat':     # type-sensitive: display form of the operand
            return ['op', '&', ['op', '&', self.scalar_ref(i, host),
                                ['s', '-']], self.scalar(i, host, d)]
        if kind == 'engfn':      # argument parsers that tell TRUE from 1.0
            return ['f', rng.pick(['DEC2BIN', 'DEC2HEX', 'DEC2OCT']),
                    self.scalar_ref(i, host)]
        if kind == 'textfn':     # number formats: parsed once, applied often
            return ['f', 'TEXT', self.scalar(i, host, d),
                    ['s', rng.pick(['0.00', '0', '0.0', '#,##0.00', '000',
                                    '0.0%', '0.00E+00'])]]
        if kind == 'istype':
            return ['f', rng.pick(['ISLOGICAL', 'ISNUMBER', 'ISTEXT']),
                    self.scalar_ref(i, host)]
        raise ValueError(kind)

    def guard(self, i, host, depth):
        return ['op', '>', self.scalar(i, host, min(depth, 1)),
                ['n', self.rng.randrange(0, 5)]]

    def array_expr(self, i, host, shape):
        rng = self.rng
        src_shape = shape if rng.chance(.7) else None
        src = self.pick_rect(i, host, src_shape)
        if src is None:
            return ['op', '+', self.scalar_ref(i, host), ['n', 1]]
        if rng.chance(self.p.get('p_arrlit', 0) * 3):
            # constant-folded array result of an information function, stored
            # into a range of another shape (padding uses the array's default)
            return ['f', rng.pick(['ISNUMBER', 'ISTEXT', 'ISERROR', 'ISBLANK',
                                   'ISLOGICAL']),
                    ['arr', [[rng.pick([1, 2, 'a', 'b']) for _ in range(
                        rng.pick([1, 2]))]]]]
        k = rng.randrange(4)
        if k == 0:
            return src
        if k == 1:
            return ['op', rng.pick(['+', '*', '-']), src,
                    ['n', rng.randrange(1, 4)]]
        if k == 2:
            return ['op', rng.pick(['+', '*']), src, self.scalar_ref(i, host)]
        shape2 = (src[5] - src[3] + 1, src[6] - src[4] + 1)
        other = self.pick_rect(i, host, shape2)
        return ['op', '+', src, other] if other else src

    # -- world
    def generate(self):
        rng, p = self.rng, self.p
        nb = rng.randrange(1, p['max_books'] + 1)
        books = []
        for _ in range(nb):
            ns = rng.randrange(1, p['max_sheets'] + 1)
            books.append([[rng.randrange(2, p['win'] + 1),
                           rng.randrange(2, p['win'] + 1)] for _ in range(ns)])
        self.world = world = {'books': books, 'cells': [], 'names': []}
        n = rng.randrange(p['min_cells'], p['max_cells'] + 1)
        # 1. positions, in creation order
        slots = []
        occ = self.occ
        for i in range(n):
            for _ in range(20):
                b, s = rng.pick(self.sheets())
                h, w = books[b][s]
                r, c = rng.randrange(h), rng.randrange(w)
                arr = None
                if rng.chance(p['p_arr']):
                    ah, aw = rng.pick([(1, 2), (2, 1), (2, 2), (1, 3)])
                    if r + ah <= h and c + aw <= w:
                        arr = [ah, aw]
                cell = {'at': [b, s, r, c]}
                if arr:
                    cell['arr'] = arr
                pos = cell_positions(cell)
                if all(q not in occ for q in pos):
                    for q in pos:
                        occ[q] = len(slots)
                    slots.append(cell)
                    break
        # 2. contents, in the same order
        for i, cell in enumerate(slots):
            host = (cell['at'][0], cell['at'][1])
            world['cells'].append(cell)
            if 'arr' in cell:
                cell['f'] = self.array_expr(i, host, tuple(cell['arr']))
            elif i >= 1 and rng.chance(p['p_formula']):
                if rng.chance(p['p_err']):
                    cell['f'] = ['e', rng.pick(['#N/A', '#DIV/0!', '#VALUE!',
                                               '#NUM!'])]
                else:
                    cell['f'] = self.scalar(i, host, p['depth'])
            else:
                cell['v'] = gen_const(rng, p)
            if rng.chance(p['p_name']) and len(world['names']) < len(NAMES):
                t = self.pick_rect(i + 1, host) if rng.chance(.5) else None
                if t is None:
                    pos = self.pick_cell(i + 1, host)
                    if pos is not None:
                        b, s, r, c = pos
                        t = ['r', b, s, r, c, r, c]
                if t is not None:
                    if p['p_back'] == 0 and not all(
                            self.allowed(q, i + 1, False)
                            for q in rect_cells(t)):
                        continue
                    world['names'].append({'b': t[1], 't': t, 'avail': i + 1})
                    # a chained name: NAME_k := NAME_j (same target; 'alias'
                    # only changes how the name's own formula is spelt)
                    if rng.chance(p.get('p_alias', 0)) and \
                            len(world['names']) < len(NAMES):
                        world['names'].append({
                            'b': t[1], 't': list(t), 'avail': i + 1,
                            'alias': len(world['names']) - 1})
        # cells keep only slots actually filled (all are)
        return world


def gen_world(rng, prof):
    return Gen(rng, prof).generate()


def used_names(world):
    ks = []
    for c in world['cells']:
        if 'f' in c:
            for x in refs_of(c['f']):
                if x[0] == 'nm' and x[1] not in ks:
                    ks.append(x[1])
    return sorted(ks)


# ---------------------------------------------------------------- placement
def identity_placement(world):
    return {
        'books': [{'file': FILES[b], 'sheets': [
            {'name': 'S%d' % (s + 1), 'r0': 1, 'c0': 1}
            for s in range(len(bk))]} for b, bk in enumerate(world['books'])],
        'names': ['NAME_%s' % chr(65 + k) for k in range(len(world['names']))],
        'style': 0,
    }


def gen_placement(rng, world, upper_files=True):
    files = [f for f in FILES if upper_files or f != 'DATA.XLSX']
    rng.shuffle(files)
    books = []
    for b, bk in enumerate(world['books']):
        names = list(SHEETS)
        rng.shuffle(names)
        books.append({'file': files[b], 'sheets': [
            {'name': names[s], 'r0': rng.pick([1, 1, 2, 5, 8, 9, 10, 11, 98]),
             'c0': rng.pick([1, 1, 2, 3, 9, 24, 25, 26, 27])}
            for s in range(len(bk))]})
    nm = list(NAMES)
    rng.shuffle(nm)
    return {'books': books, 'names': nm[:len(world['names'])],
            'style': rng.randrange(1 << 30)}


# -------------------------------------------------------------- realisation
def const_to_py(v):
    return v


def dict_items(world, placement):
    """[(key, value)] in creation order: cells first, then names."""
    P = Placement(placement)
    R = Renderer(world, P, 'dict')
    items = []
    for c in world['cells']:
        b, s, r, col = c['at']
        host = (b, s)
        if 'arr' in c:
            h, w = c['arr']
            key = P.rect_id(b, s, r, col, r + h - 1, col + w - 1)
        else:
            key = P.cell_id(b, s, r, col)
        if 'f' in c:
            items.append((key, R.formula(c['f'], host)))
        else:
            items.append((key, c['v']))
    for k, n in enumerate(world['names']):
        t = n['t']
        if n.get('alias') is not None:
            items.append((P.name_id(n['b'], k),
                          '=' + P.name_id(n['b'], n['alias'])))
        else:
            items.append((P.name_id(n['b'], k), '=' + R.ref(t, None)))
    for k, n in enumerate(world.get('vnames', [])):
        items.append((P.vname_id(n['b'], k), R.formula(n['f'], (n['b'], 0))))
    return items


def cell_key(world, placement, i):
    P = Placement(placement)
    c = world['cells'][i]
    b, s, r, col = c['at']
    if 'arr' in c:
        h, w = c['arr']
        return P.rect_id(b, s, r, col, r + h - 1, col + w - 1)
    return P.cell_id(b, s, r, col)


def xlsx_books(world, placement, sheet_orders=None, styled=True,
               skip_sheets=(), skip_names=(), extlinks=False,
               broken_names=()):
    """{file name: xlsx bytes}, written by openpyxl in memory.

    skip_sheets: [(b, s)] sheets left out of their book (fault worlds);
    skip_names: [k] defined names left undefined."""
    import openpyxl
    from openpyxl.workbook.defined_name import DefinedName
    from openpyxl.worksheet.formula import ArrayFormula
    from .rng import Rng
    P = Placement(placement)
    out = {}
    for b, bk in enumerate(world['books']):
        wb = openpyxl.Workbook()
        wb.remove(wb.active)
        order = (sheet_orders or {}).get(str(b)) or list(range(len(bk)))
        wss = {}
        for s in order:
            if (b, s) in skip_sheets:
                continue
            wss[s] = wb.create_sheet(P.sheet(b, s)['name'])
        if not wss:
            wb.create_sheet('Other')
        links = None
        if extlinks:
            # real externalLink parts: every other book gets a numeric id
            from openpyxl.workbook.external_link.external import (
                ExternalLink, ExternalBook, ExternalSheetNames)
            from openpyxl.packaging.relationship import Relationship
            others = [x for x in range(len(world['books'])) if x != b]
            if placement['style'] % 2:
                others.reverse()
            # sometimes a link to a workbook of another format sits in front
            # (the library skips it; the numbering of the others must not move)
            if placement['style'] % 3 == 0:
                others.insert(placement['style'] % (len(others) + 1), None)
            links = {}
            n_links = 0
            for x in others:
                n_links += 1
                if x is None:
                    links['legacy'] = n_links
                    link = ExternalLink(externalBook=ExternalBook(
                        sheetNames=ExternalSheetNames(sheetName=['Old']),
                        id='rId1'))
                    link.file_link = Relationship(
                        type='externalLinkPath', Target='legacy.xls',
                        TargetMode='External', Id='rId1')
                    wb._external_links.append(link)
                    continue
                links[x] = n_links
                link = ExternalLink(externalBook=ExternalBook(
                    sheetNames=ExternalSheetNames(sheetName=[
                        P.sheet(x, q)['name']
                        for q in range(len(world['books'][x]))]), id='rId1'))
                link.file_link = Relationship(
                    type='externalLinkPath', Target=P.file(x),
                    TargetMode='External', Id='rId1')
                wb._external_links.append(link)
        for i, c in enumerate(world['cells']):
            if c['at'][0] != b or (b, c['at'][1]) in skip_sheets:
                continue
            _, s, r, col = c['at']
            st = Rng(placement['style'], 'cell%s' % (c['at'],)) if styled and \
                placement['style'] else None
            R = Renderer(world, P, 'file', st, links)
            ws = wss[s]
            a1 = P.a1(b, s, r, col)
            if 'f' in c:
                text = R.formula(c['f'], (b, s))
                if 'arr' in c:
                    h, w = c['arr']
                    ref = P.rect_a1(b, s, r, col, r + h - 1, col + w - 1,
                                    force_range=True)
                    ws[a1] = ArrayFormula(ref, text)
                    if placement['style'] % 2 == 0:
                        # as in files saved by Excel, the other cells of the
                        # block hold cached values (here: stale ones, which
                        # the loader must ignore)
                        for rr in range(h):
                            for cc in range(w):
                                if (rr, cc) != (0, 0):
                                    ws[P.a1(b, s, r + rr, col + cc)] = 777
                else:
                    ws[a1] = text
            else:
                ws[a1] = c['v']
        for k, n in enumerate(world['names']):
            if n['b'] != b:
                continue
            if k in broken_names:
                # what Excel leaves behind when the target of a name is
                # deleted: the name exists, its definition is #REF!
                nm = placement['names'][k]
                wb.defined_names[nm] = DefinedName(nm, attr_text='#REF!')
                continue
            if k in skip_names:
                continue
            _, tb, ts, r1, c1, r2, c2 = n['t']
            name = P.sheet(tb, ts)['name'].replace("'", "''")
            text = "'%s'!%s" % (name, P.rect_a1(tb, ts, r1, c1, r2, c2, 15))
            if tb != b:
                text = "'[%s]%s'!%s" % (P.file(tb), name,
                                       P.rect_a1(tb, ts, r1, c1, r2, c2, 15))
            nm = placement['names'][k]
            if n.get('alias') is not None:
                text = placement['names'][n['alias']]
            wb.defined_names[nm] = DefinedName(nm, attr_text=text)
        for k, n in enumerate(world.get('vnames', [])):
            if n['b'] != b:
                continue
            R = Renderer(world, P, 'file', None)
            wb.defined_names[P.vname(k)] = DefinedName(
                P.vname(k), attr_text=R.render(n['f'], (b, 0)))
        bio = io.BytesIO()
        wb.save(bio)
        out[P.file(b)] = bio.getvalue()
    return out


def add_satellite_name_chain(rng, world):
    """Root cell -> satellite cell -> satellite defined name -> satellite cell:
    the names of a lazily loaded workbook must be known to its own cells."""
    if len(world['books']) < 2 or len(world['names']) >= len(NAMES):
        return False
    idx = Index(world)
    b = rng.randrange(1, len(world['books']))
    s = rng.randrange(len(world['books'][b]))
    h, w = world['books'][b][s]
    covered = set(idx.occ)
    for c in world['cells']:
        if 'f' in c:
            for x in refs_of(c['f']):
                r = x if x[0] == 'r' else world['names'][x[1]]['t']
                covered.update(rect_cells(r))
    for n in world['names']:
        covered.update(rect_cells(n['t']))
    free_b = [(b, s, r, c) for r in range(h + 2) for c in range(w + 2)
              if (b, s, r, c) not in covered]
    rh, rw = world['books'][0][0]
    free_r = [(0, 0, r, c) for r in range(rh + 2) for c in range(rw + 2)
              if (0, 0, r, c) not in covered]
    if len(free_b) < 2 or not free_r:
        return False
    p1, p2 = free_b[0], free_b[1]
    n_cells = len(world['cells'])
    world['cells'].append({'at': list(p1), 'v': rng.randrange(1, 9)})
    world['names'].append({'b': b, 't': ['r'] + list(p1) + list(p1[2:]),
                           'avail': n_cells + 1})
    k = len(world['names']) - 1
    world['cells'].append({'at': list(p2), 'f': ['op', '+', ['nm', k],
                                                 ['n', rng.randrange(1, 5)]]})
    pr = rng.pick(free_r)
    world['cells'].append({'at': list(pr), 'f': ['op', '*', ['r'] + list(p2) +
                                                 list(p2[2:]), ['n', 2]]})
    world['books'][b][s] = [max(h, p1[2] + 1, p2[2] + 1),
                            max(w, p1[3] + 1, p2[3] + 1)]
    world['books'][0][0] = [max(rh, pr[2] + 1), max(rw, pr[3] + 1)]
    return True


def add_satellite_block(rng, world):
    """A 3x3 block of constants on a satellite sheet read from the root through
    a column range and a row range that CROSS (the shared cell is reached
    twice during lazy completion), plus an array formula next to it whose
    non-anchor cells are read from the root - and another, earlier-sorting
    reference into the same sheet."""
    if len(world['books']) < 2:
        return False
    idx = Index(world)
    b = rng.randrange(1, len(world['books']))
    s = rng.randrange(len(world['books'][b]))
    h, w = world['books'][b][s]
    covered = set(idx.occ)
    for c in world['cells']:
        if 'f' in c:
            for x in refs_of(c['f']):
                r = x if x[0] == 'r' else world['names'][x[1]]['t']
                covered.update(rect_cells(r))
    for n in world['names']:
        covered.update(rect_cells(n['t']))
    # a free area of 3 rows x 5 columns below / right of everything
    r0 = max([p[2] for p in covered if p[:2] == (b, s)] + [h - 1]) + 1
    c0 = 0
    block = {}
    for r in range(3):
        for c in range(3):
            if (r, c) == (0, 0) and rng.chance(.5):
                continue            # one blank corner
            world['cells'].append({'at': [b, s, r0 + r, c0 + c],
                                   'v': rng.randrange(1, 9) * (10 ** c)})
    # array formula {D..E} of 3x1 over the first block column
    col = c0 + 3
    src = ['r', b, s, r0, c0 + 1, r0 + 2, c0 + 1]
    world['cells'].append({'at': [b, s, r0, col], 'arr': [3, 1],
                           'f': ['op', '*', src, ['n', 2]]})
    world['books'][b][s] = [max(h, r0 + 3), max(w, col + 1)]
    rh, rw = world['books'][0][0]
    free_r = [(0, 0, r, c) for r in range(rh + 3) for c in range(rw + 3)
              if (0, 0, r, c) not in covered]
    forms = [
        ['f', 'SUM', ['r', b, s, r0, c0 + 1, r0 + 2, c0 + 1]],     # column
        ['f', 'SUM', ['r', b, s, r0 + 1, c0, r0 + 1, c0 + 2]],     # row
        ['op', '+', ['r', b, s, r0 + 1, col, r0 + 1, col], ['n', 1]],  # spill
        ['f', 'SUM', ['r', b, s, r0 + 1, col, r0 + 2, col]],       # spill part
        ['op', '*', ['r', b, s, r0 + 2, c0 + 2, r0 + 2, c0 + 2], ['n', 3]],
    ]
    rng.shuffle(forms)
    k = 0
    for f in forms[:rng.randrange(3, 6)]:
        if k >= len(free_r):
            break
        p = free_r[k]
        k += 1
        world['cells'].append({'at': list(p), 'f': f})
        rh, rw = max(rh, p[2] + 1), max(rw, p[3] + 1)
    world['books'][0][0] = [rh, rw]
    return True


def add_named_block(rng, world):
    """Three constants in a row (or column), a defined name over them, a
    chained name, one formula reading a single member and one aggregating the
    name: overrides through the name must reach the member cells."""
    if len(world['names']) + 2 > len(NAMES):
        return False
    idx = Index(world)
    b = rng.randrange(len(world['books']))
    s = rng.randrange(len(world['books'][b]))
    h, w = world['books'][b][s]
    covered = set(idx.occ)
    for c in world['cells']:
        if 'f' in c:
            for x in refs_of(c['f']):
                r = x if x[0] == 'r' else world['names'][x[1]]['t']
                covered.update(rect_cells(r))
    for n in world['names']:
        covered.update(rect_cells(n['t']))
    r0 = max([p[2] for p in covered if p[:2] == (b, s)] + [h - 1]) + 1
    horiz = rng.chance(.5)
    pos = [(r0, c) for c in range(3)] if horiz else \
        [(r0 + r, 0) for r in range(3)]
    n0 = len(world['cells'])
    for p in pos:
        world['cells'].append({'at': [b, s, p[0], p[1]],
                               'v': rng.randrange(1, 9)})
    t = ['r', b, s, pos[0][0], pos[0][1], pos[2][0], pos[2][1]]
    world['names'].append({'b': b, 't': t, 'avail': n0 + 3})
    k = len(world['names']) - 1
    world['names'].append({'b': b, 't': list(t), 'avail': n0 + 3, 'alias': k})
    extra = [(r0 + 3, 0), (r0 + 3, 1), (r0 + 3, 2)]
    m = pos[rng.randrange(3)]
    world['cells'].append({'at': [b, s, extra[0][0], extra[0][1]], 'f': [
        'op', '*', ['r', b, s, m[0], m[1], m[0], m[1]], ['n', 10]]})
    world['cells'].append({'at': [b, s, extra[1][0], extra[1][1]], 'f': [
        'f', 'SUM', ['nm', rng.pick([k, k + 1])]]})
    world['cells'].append({'at': [b, s, extra[2][0], extra[2][1]], 'f': [
        'op', '+', ['r', b, s, pos[0][0], pos[0][1], pos[0][0], pos[0][1]],
        ['r', b, s, pos[2][0], pos[2][1], pos[2][0], pos[2][1]]]})
    # consumers that are sensitive to the TYPE of the member cell's value
    m2 = pos[rng.randrange(3)]
    world['cells'].append({'at': [b, s, r0 + 4, 0], 'f': [
        'op', '&', ['r', b, s, m2[0], m2[1], m2[0], m2[1]], ['s', '-']]})
    world['cells'].append({'at': [b, s, r0 + 4, 1], 'f': [
        'f', rng.pick(['ISLOGICAL', 'ISNUMBER']),
        ['r', b, s, m2[0], m2[1], m2[0], m2[1]]]})
    world['books'][b][s] = [max(h, r0 + 5), max(w, 3)]
    return True


def add_whole_refs(rng, world, cols=False):
    """Aggregates over whole rows (and, if ``cols``, whole columns) of one
    sheet, placed outside the rows / columns they read.  Must be the LAST
    motif applied: the node records the window as it is now."""
    idx = Index(world)
    b = rng.randrange(len(world['books']))
    s = rng.randrange(len(world['books'][b]))
    h, w = world['books'][b][s]
    covered = set(idx.occ)
    for c in world['cells']:
        if 'f' in c:
            for x in refs_of(c['f']):
                r = x if x[0] == 'r' else world['names'][x[1]]['t']
                covered.update(rect_cells(r))
    for n in world['names']:
        covered.update(rect_cells(n['t']))
    mine = [q for q in covered if q[:2] == (b, s)]
    r0 = max([q[2] for q in mine] + [h - 1]) + 1
    c0 = max([q[3] for q in mine] + [w - 1]) + 1
    # hosts stand at column c0 (outside every column read) in rows r0.. (outside
    # every row read); they may be on another sheet altogether
    hb, hs = b, s
    if rng.chance(.3):
        hb = rng.randrange(len(world['books']))
        hs = rng.randrange(len(world['books'][hb]))
    kinds = ['row'] + (['col'] if cols else []) + \
        (['row'] if rng.chance(.3) else [])
    rows_here = sorted({q[2] for q in idx.occ if q[:2] == (b, s)}) or [0]
    cols_here = sorted({q[3] for q in idx.occ if q[:2] == (b, s)}) or [0]
    hosts = []
    for k, kind in enumerate(kinds):
        if kind == 'row':
            r1 = rng.pick(rows_here)
            r2 = min(r1 + rng.pick([0, 0, 1]), r0 - 1)
            node = ['w', b, s, r1, 0, r2, c0 - 1, 'row']
        else:
            c1 = rng.pick(cols_here)
            c2 = min(c1 + rng.pick([0, 0, 1]), c0 - 1)
            node = ['w', b, s, 0, c1, r0 - 1, c2, 'col']
        f = ['f', rng.pick(['SUM', 'SUM', 'COUNT', 'MAX', 'MIN']), node]
        if rng.chance(.3):
            f = ['op', '+', f, ['n', rng.randrange(1, 4)]]
        hosts.append(f)
    if (hb, hs) == (b, s):
        base_r, base_c = r0, c0
    else:
        hh, hw = world['books'][hb][hs]
        cov2 = [q for q in covered if q[:2] == (hb, hs)]
        base_r = max([q[2] for q in cov2] + [hh - 1]) + 1
        base_c = 0
    for k, f in enumerate(hosts):
        world['cells'].append({'at': [hb, hs, base_r + k, base_c], 'f': f})
    hh, hw = world['books'][hb][hs]
    world['books'][hb][hs] = [max(hh, base_r + len(hosts)),
                              max(hw, base_c + 1)]
    return True


def add_sparse_range(rng, world, undefined=False):
    """A 1x5 (or 5x1) rectangle with two constants and three blanks, an
    aggregate over it and a reader of one constant; optionally a cell using a
    name that is defined nowhere."""
    idx = Index(world)
    b = rng.randrange(len(world['books']))
    s = rng.randrange(len(world['books'][b]))
    h, w = world['books'][b][s]
    covered = set(idx.occ)
    for c in world['cells']:
        if 'f' in c:
            for x in refs_of(c['f']):
                r = x if x[0] == 'r' else world['names'][x[1]]['t']
                covered.update(rect_cells(r))
    for n in world['names']:
        covered.update(rect_cells(n['t']))
    r0 = max([p[2] for p in covered if p[:2] == (b, s)] + [h - 1]) + 1
    filled = rng.sample(range(5), 2)
    for k in filled:
        world['cells'].append({'at': [b, s, r0, k], 'v': rng.randrange(1, 9)})
    rect = ['r', b, s, r0, 0, r0, 4]
    world['cells'].append({'at': [b, s, r0 + 1, 0], 'f': [
        'f', rng.pick(['SUM', 'MAX', 'COUNT']), rect]})
    world['cells'].append({'at': [b, s, r0 + 1, 1], 'f': [
        'op', '+', ['r', b, s, r0, filled[0], r0, filled[0]],
        ['r', b, s, r0 + 1, 0, r0 + 1, 0]]})
    if undefined:
        world['cells'].append({'at': [b, s, r0 + 1, 2], 'f': [
            'op', '+', ['un', 'NO_SUCH_NAME'],
            ['r', b, s, r0, filled[1], r0, filled[1]]]})
    world['books'][b][s] = [max(h, r0 + 2), max(w, 5)]
    return True
