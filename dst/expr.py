"""Formula expression trees of the harness: rendering, reference bookkeeping.

An expression is a JSON list:

  ["n", 3] ["s", "x"] ["b", true] ["e", "#N/A"]        literals
  ["r", b, s, r1, c1, r2, c2]                          reference, abstract coords
  ["nm", k]                                            defined name k of the world
  ["an", b, s, r, c]                                   spill reference B1# to the array
                                                       formula anchored at (r, c)
  ["w", b, s, r1, c1, r2, c2, "row"|"col"]             whole rows r1..r2 / columns
                                                       c1..c2; the rectangle is the
                                                       part of them inside the window
  ["op", "+", x, y]                                    + - * & and comparisons
  ["f", "SUM", x, ...]                                 function call
  ["raw", "text"]                                      verbatim text (fault worlds)

Abstract coordinates are zero-based inside a sheet window; a *placement* maps
them to concrete rows / columns / sheet names / file names.
"""
import re

CMP = ('>', '<', '=', '>=', '<=', '<>')
ARITH = ('+', '-', '*')
AGGR = ('SUM', 'MAX', 'MIN', 'COUNT')
LAZY_FUNCS = ('IF', 'IFS', 'IFERROR', 'IFNA')
INTERCEPT = ('IFERROR', 'IFNA', 'ISERROR', 'ISERR', 'ISNA', 'ISNUMBER',
             'ISTEXT', 'ISBLANK', 'ISLOGICAL', 'ISNONTEXT', 'COUNT', 'COUNTA',
             'ERROR.TYPE', 'IF', 'IFS')


def col_letters(n):
    """1-based column index -> letters."""
    s = ''
    while n:
        n, r = divmod(n - 1, 26)
        s = chr(65 + r) + s
    return s


_simple_sheet = re.compile(r'^[A-Za-z_][A-Za-z0-9_]*$')
_cell_like = re.compile(r'^[A-Za-z]{1,3}[0-9]+$|^[Rr][0-9]*[Cc][0-9]*$')


def sheet_needs_quote(name):
    return not _simple_sheet.match(name) or bool(_cell_like.match(name))


class Placement:
    """Concrete names and offsets of an abstract world.

    data = {"books": [{"file": "a.xlsx", "sheets": [{"name", "r0", "c0"}]}],
            "names": ["NAME_A", ...], "style": int}
    """

    def __init__(self, data):
        self.d = data
        # "bare": the one-sheet dictionary of the README - keys and references
        # without workbook and sheet ('A1', 'A1:B2', 'RATE'); dictionary
        # schedules of one-book one-sheet worlds only
        self.bare = bool(data.get('bare'))

    def file(self, b):
        return self.d['books'][b]['file']

    def sheet(self, b, s):
        return self.d['books'][b]['sheets'][s]

    def rc(self, b, s, r, c):
        sh = self.sheet(b, s)
        return sh['r0'] + r, sh['c0'] + c

    def a1(self, b, s, r, c, dollar=0):
        row, col = self.rc(b, s, r, c)
        return '%s%s%s%d' % ('$' if dollar & 1 else '', col_letters(col),
                             '$' if dollar & 2 else '', row)

    def rect_a1(self, b, s, r1, c1, r2, c2, dollar=0, force_range=False):
        x = self.a1(b, s, r1, c1, dollar)
        if (r1, c1) == (r2, c2) and not force_range:
            return x
        return '%s:%s' % (x, self.a1(b, s, r2, c2, dollar >> 2))

    def sheet_id(self, b, s):
        """Canonical sheet id as the library spells it: '[file]SHEET'."""
        return "'[%s]%s'" % (self.file(b), self.sheet(b, s)['name'].upper(
        ).replace("'", "''"))

    def cell_id(self, b, s, r, c):
        if self.bare:
            return self.a1(b, s, r, c)
        return '%s!%s' % (self.sheet_id(b, s), self.a1(b, s, r, c))

    def rect_id(self, b, s, r1, c1, r2, c2):
        if self.bare:
            return self.rect_a1(b, s, r1, c1, r2, c2)
        return '%s!%s' % (self.sheet_id(b, s),
                          self.rect_a1(b, s, r1, c1, r2, c2))

    def whole_a1(self, e, dollar=0):
        """'3:4' / 'C:D' of a whole-row / whole-column node."""
        _, b, s, r1, c1, r2, c2, kind = e
        (row1, col1), (row2, col2) = self.rc(b, s, r1, c1), \
            self.rc(b, s, r2, c2)
        d1, d2 = ('$' if dollar & 1 else ''), ('$' if dollar & 2 else '')
        if kind == 'row':
            return '%s%d:%s%d' % (d1, row1, d2, row2)
        return '%s%s:%s%s' % (d1, col_letters(col1), d2, col_letters(col2))

    def whole_id(self, e):
        if self.bare:
            return self.whole_a1(e)
        return '%s!%s' % (self.sheet_id(e[1], e[2]), self.whole_a1(e))

    def name_id(self, b, k):
        if self.bare:
            return self.d['names'][k].upper()
        return "'[%s]'!%s" % (self.file(b), self.d['names'][k].upper())

    def vname(self, k):
        return 'VOL_%s' % chr(65 + k)

    def vname_id(self, b, k):
        if self.bare:
            return self.vname(k)
        return "'[%s]'!%s" % (self.file(b), self.vname(k))


def walk(e):
    """Yield every sub-expression (pre-order)."""
    yield e
    if e[0] == 'op':
        for x in e[2:]:
            yield from walk(x)
    elif e[0] == 'f':
        for x in e[2:]:
            yield from walk(x)
    elif e[0] in ('u', 'x'):      # union (a,b) / intersection (a b)
        for x in e[1:]:
            yield from walk(x)


def refs_of(e):
    """List of reference / name nodes in order of appearance."""
    out = []

    def rec(x):
        k = x[0]
        if k in ('r', 'nm'):
            out.append(x)
        elif k == 'an':
            # spill reference B1#: depends on the (array) cell standing there
            out.append(['r', x[1], x[2], x[3], x[4], x[3], x[4]])
        elif k == 'w':
            # whole rows / columns: the cells it can hold are those of the
            # window recorded when the reference was made
            out.append(['r'] + x[1:7])
        elif k == 'x' and all(y[0] == 'r' for y in x[1:]):
            # only the common cells are referred to - none at all when the
            # areas do not meet (#NULL!, decided without reading any cell)
            a = x[1]
            for y in x[2:]:
                if a is None or a[1:3] != y[1:3]:
                    a = None
                    break
                r1, c1 = max(a[3], y[3]), max(a[4], y[4])
                r2, c2 = min(a[5], y[5]), min(a[6], y[6])
                a = ['r', a[1], a[2], r1, c1, r2, c2] \
                    if r1 <= r2 and c1 <= c2 else None
            if a is not None:
                out.append(a)
        elif k in ('op', 'f'):
            for y in x[2:]:
                rec(y)
        elif k in ('u', 'x'):
            for y in x[1:]:
                rec(y)
    rec(e)
    return out


def rect_cells(ref):
    _, b, s, r1, c1, r2, c2 = ref
    return [(b, s, r, c) for r in range(r1, r2 + 1) for c in range(c1, c2 + 1)]


class Renderer:
    """Turns an expression into formula text.

    mode 'dict': every reference fully qualified exactly as ``to_dict`` emits.
    mode 'file': relative to the host sheet, with spelling variants chosen by
    ``style`` (a ``random.Random``-like object or None for the plain spelling).
    """

    def __init__(self, world, placement, mode, style=None, extlinks=None):
        self.w, self.p, self.mode, self.style = world, placement, mode, style
        # {target book index: numeric external-link id} of the host book:
        # cross-book references are then spelt `[1]Sheet!A1` as Excel does
        self.extlinks = extlinks

    def lit(self, e):
        k, v = e[0], e[1]
        if k == 'n':
            if isinstance(v, float) and v.is_integer():
                v = int(v)
            # (negative literals are generated as function arguments only,
            # never as operands of an operator: sign runs are C01's business)
            return repr(v)
        if k == 's':
            return '"%s"' % v.replace('"', '""')
        if k == 'b':
            return 'TRUE' if v else 'FALSE'
        if k == 'e':
            # optional third item: sheet qualifier of the literal as Excel
            # leaves it behind, e.g. 'Bob''s data'!#REF!
            q = e[2] if len(e) > 2 else ''
            if q.startswith('>'):       # #REF!A1 (the sheet was deleted)
                return v + q[1:]
            if q == 'lower':
                return v.lower()
            if q == 'area':         # an area of a multi-area reference
                return v
            return q + v
        raise ValueError(e)

    def ref(self, e, host):
        whole = e[0] == 'w'
        b, s, r1, c1, r2, c2 = e[1:7]
        st = self.style
        if self.mode == 'dict':
            if whole:
                return self.p.whole_id(e)
            return self.p.rect_id(b, s, r1, c1, r2, c2)
        dollar = st.randrange(16) if st and st.random() < .3 else 0
        a1 = self.p.whole_a1(e, dollar) if whole else \
            self.p.rect_a1(b, s, r1, c1, r2, c2, dollar)
        hb, hs = host
        if (b, s) == (hb, hs) and not (st and st.random() < .15):
            return a1
        name = self.p.sheet(b, s)['name']
        if st and st.random() < .2:
            name = name.upper() if st.random() < .5 else name.lower()
        if b != hb:
            if self.extlinks and b in self.extlinks:
                if sheet_needs_quote(name):
                    return "'[%d]%s'!%s" % (self.extlinks[b],
                                            name.replace("'", "''"), a1)
                return '[%d]%s!%s' % (self.extlinks[b], name, a1)
            return "'[%s]%s'!%s" % (self.p.file(b),
                                    name.replace("'", "''"), a1)
        if sheet_needs_quote(name) or (st and st.random() < .3):
            return "'%s'!%s" % (name.replace("'", "''"), a1)
        return '%s!%s' % (name, a1)

    def name(self, e, host):
        k = e[1]
        nm = self.w['names'][k]
        if self.mode == 'dict':
            return self.p.name_id(nm['b'], k)
        n = self.p.d['names'][k]
        if self.style and self.style.random() < .2:
            n = n.lower()
        if nm['b'] != host[0]:      # a name defined in another workbook
            if self.extlinks and nm['b'] in self.extlinks:
                return '[%d]!%s' % (self.extlinks[nm['b']], n)
            return "'[%s]'!%s" % (self.p.file(nm['b']), n)
        return n

    def render(self, e, host):
        k = e[0]
        if k == 'e' and len(e) > 2 and e[2] == 'legacy':
            # a reference through a link to a workbook of another format
            # (legacy.xls: nothing the library can open), naming a sheet that
            # the host book has as well; plain #REF! where no such link exists
            if self.mode == 'file' and self.extlinks and \
                    'legacy' in self.extlinks:
                name = self.p.sheet(*host)['name']
                if sheet_needs_quote(name):
                    return "'[%d]%s'!A1" % (self.extlinks['legacy'],
                                            name.replace("'", "''"))
                return '[%d]%s!A1' % (self.extlinks['legacy'], name)
            return e[1]
        if k in ('n', 's', 'b', 'e'):
            return self.lit(e)
        if k == 'raw':
            return e[1]
        if k == 'u':      # reference union: every area counts, overlaps twice
            return '(%s)' % ','.join(self.render(x, host) for x in e[1:])
        if k == 'x':      # reference intersection
            return ' '.join(self.render(x, host) for x in e[1:])
        if k == 'un':     # a name that is defined nowhere
            if self.mode == 'dict' and not self.p.bare:
                return "'[%s]'!%s" % (self.p.file(host[0]), e[1])
            return e[1]
        if k == 'arr':    # array literal {1,2;3,4}
            return '{%s}' % ';'.join(','.join(
                self.lit(['n', v]) if not isinstance(v, str) else
                self.lit(['s', v]) for v in row) for row in e[1])
        if k in ('r', 'w'):
            return self.ref(e, host)
        if k == 'an':     # spill reference, stored by Excel as a function call
            cell = ['r', e[1], e[2], e[3], e[4], e[3], e[4]]
            if self.mode == 'dict':
                return self.ref(cell, host) + '#'
            return '_xlfn.ANCHORARRAY(%s)' % self.ref(cell, host)
        if k == 'nm':
            return self.name(e, host)
        if k == 'vn':    # defined name holding a formula (volatile names)
            if self.mode == 'dict':
                return self.p.vname_id(self.w['vnames'][e[1]]['b'], e[1])
            return self.p.vname(e[1])
        if k == 'op':
            sp = ' ' if self.style and self.style.random() < .2 else ''
            return '(%s%s%s%s%s)' % (
                self.render(e[2], host), sp, e[1], sp, self.render(e[3], host))
        if k == 'f':
            fn = e[1]
            if self.style and self.style.random() < .15:
                fn = fn.lower()
            return '%s(%s)' % (fn, ','.join(self.render(x, host)
                                            for x in e[2:]))
        raise ValueError(e)

    def formula(self, e, host):
        return '=' + self.render(e, host)


def lazy_positions(e, conds=()):
    """Yield (ref_or_name_node, conds) for every reference occurrence.

    ``conds`` is a tuple of conditions under which the occurrence is evaluated:
    ('if', guard_expr, want_truth) or ('iferr', value_expr, kind) where kind is
    'IFERROR' / 'IFNA'.  An empty tuple is a strict (always consumed)
    occurrence.
    """
    k = e[0]
    if k in ('r', 'nm'):
        yield e, conds
    elif k == 'op':
        for x in e[2:]:
            yield from lazy_positions(x, conds)
    elif k == 'f':
        fn, args = e[1], e[2:]
        if fn == 'IF' and len(args) >= 2:
            yield from lazy_positions(args[0], conds)
            yield from lazy_positions(args[1], conds + (('if', args[0], True),))
            if len(args) > 2:
                yield from lazy_positions(
                    args[2], conds + (('if', args[0], False),))
        elif fn == 'IFS':
            acc = conds
            for i in range(0, len(args) - 1, 2):
                yield from lazy_positions(args[i], acc)
                yield from lazy_positions(
                    args[i + 1], acc + (('if', args[i], True),))
                acc = acc + (('if', args[i], False),)
        elif fn in ('IFERROR', 'IFNA') and len(args) == 2:
            yield from lazy_positions(args[0], conds)
            yield from lazy_positions(
                args[1], conds + (('iferr', args[0], fn),))
        else:
            for x in args:
                yield from lazy_positions(x, conds)


def world_features(trace):
    """{feature: 1} of the reference forms and build schedules a trace holds
    (summed over runs into the evidence: what the batch really exercised)."""
    out = {}
    world = trace.get('world')
    if not isinstance(world, dict):
        return out
    names = {'u': 'reference_union', 'x': 'reference_intersection',
             'w': 'whole_row_or_column', 'an': 'spill_reference',
             'arr': 'array_literal', 'vn': 'volatile_defined_name',
             'nm': 'defined_name_reference', 'un': 'undefined_name'}

    def rec(e):
        if not isinstance(e, list) or not e:
            return
        k = e[0]
        if not isinstance(k, str):      # rows of an array literal
            return
        if k in names:
            out[names[k]] = 1
        if k == 'w':
            out['whole_' + e[7]] = 1
        if k == 'e' and len(e) > 2:
            out['sheet_qualified_error_literal'] = 1
        if k == 'r':
            if (e[3], e[4]) != (e[5], e[6]):
                out['multi_cell_reference'] = 1
            return
        for y in e[1:]:
            if isinstance(y, list):
                rec(y)

    for c in world.get('cells', []):
        if 'f' in c:
            rec(c['f'])
            if c['f'][0] == 'f' and c['f'][1] == 'SIMFAULT':
                out['simfault_cell'] = 1
        if 'arr' in c:
            out['array_formula_cell'] = 1
    if len(world.get('books', [])) > 1:
        out['several_books'] = 1
    if any(n.get('alias') is not None for n in world.get('names', [])):
        out['chained_name'] = 1
    scheds = trace.get('schedules') or (
        [trace['schedule']] if trace.get('schedule') else [])
    for s in scheds:
        if s.get('split'):
            out['two_stage_build'] = 1
        if s.get('circular'):
            out['circular_finish'] = 1
        if s.get('extlinks'):
            out['external_link_parts'] = 1
        if s.get('kind') == 'file':
            out['file_path_' + str(s.get('mode', 'loads'))] = 1
        if s.get('kind') == 'dict':
            out['dictionary_path'] = 1
    return out
