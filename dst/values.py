"""Normalisation of library values into canonical, hash-stable strings.

Only populated workbook cells, defined names and explicitly requested ranges
are observed.  A scalar becomes a tagged string:

  n:<repr(float)>   number (ints and numpy numbers folded into binary64)
  b:1 / b:0         logical (kept distinct from numbers)
  s:<text>          text
  e:<#ERR!>         error value (#CIRC! included)
  blank             empty cell
  missing           node absent from the solution
"""
import numpy as np
import schedula as sh

MISSING = 'missing'


def norm_scalar(v):
    from formulas.tokens.operand import XlError
    if v is sh.EMPTY or (isinstance(v, sh.Token) and v == sh.EMPTY):
        return 'blank'
    if isinstance(v, XlError):
        return 'e:' + v[:]
    if isinstance(v, (bool, np.bool_)):
        return 'b:%d' % bool(v)
    if isinstance(v, (int, float, np.integer, np.floating)):
        f = float(v)
        if f == 0:
            f = 0.0  # -0.0 and 0.0 are one value
        return 'n:' + repr(f)
    if isinstance(v, str):
        if isinstance(v, sh.Token):
            return 't:' + v[:]
        return 's:' + v
    if v is None:
        return 'none'
    return 'o:%s' % type(v).__name__


def norm_value(v):
    """Ranges | ndarray | scalar -> [[tag, ...], ...] (2-D nested list)."""
    from formulas.ranges import Ranges
    if isinstance(v, Ranges):
        try:
            v = v.value
        except Exception as ex:  # unvalued range
            return [['o:unvalued:%s' % type(ex).__name__]]
    if isinstance(v, np.ndarray):
        if v.ndim == 0:
            return [[norm_scalar(v.item())]]
        if v.ndim == 1:
            return [[norm_scalar(x) for x in v]]
        return [[norm_scalar(x) for x in row] for row in v]
    if isinstance(v, (list, tuple)):
        a = np.asarray(v, object)
        return norm_value(a)
    return [[norm_scalar(v)]]


def raw_value(v):
    """Ranges | ndarray | scalar -> 2-D object ndarray of raw scalars."""
    from formulas.ranges import Ranges
    if isinstance(v, Ranges):
        v = v.value
    a = np.asarray(v, object)
    if a.ndim == 0:
        a = a.reshape(1, 1)
    elif a.ndim == 1:
        a = a.reshape(1, -1)
    return a


def is_error_tag(t):
    return t.startswith('e:')


def tag_of_const(v):
    """Normal form of a harness constant (number | str | bool)."""
    if isinstance(v, bool):
        return 'b:%d' % v
    if isinstance(v, (int, float)):
        return 'n:' + repr(float(v) if v else 0.0)
    return 's:' + v
