"""Labelled deterministic PRNG sub-streams: everything derives from one integer.

``Rng(seed, label)`` is a ``random.Random`` whose state is a pure function of
``(seed, label)``; no stream is shared with a library and nothing here reads a
clock or ``hash()``.
"""
import hashlib
import random


def derive(seed, label):
    h = hashlib.sha256(('%d/%s' % (seed, label)).encode()).hexdigest()
    return int(h[:16], 16)


class Rng(random.Random):
    def __init__(self, seed, label=''):
        super().__init__(derive(seed, label))
        self._seed, self._label = seed, label

    def sub(self, label):
        return Rng(self._seed, '%s/%s' % (self._label, label))

    def chance(self, p):
        return self.random() < p

    def pick(self, seq):
        return seq[self.randrange(len(seq))]

    def weighted(self, pairs):
        """pairs: list of (item, weight) -> item."""
        tot = sum(w for _, w in pairs)
        x = self.random() * tot
        for it, w in pairs:
            x -= w
            if x < 0:
                return it
        return pairs[-1][0]

    def perm(self, n):
        p = list(range(n))
        self.shuffle(p)
        return p


def digest(obj):
    import json
    return hashlib.sha256(
        json.dumps(obj, sort_keys=True, separators=(',', ':')).encode()
    ).hexdigest()[:20]
