"""Candidate generators used by the greedy shrinker (pure JSON surgery)."""
import copy

from .expr import walk
from .world import identity_placement


def _map_expr(e, fn):
    """Rebuild an expression bottom-up; fn(node) -> node."""
    if e[0] in ('op', 'f'):
        e = e[:2] + [_map_expr(x, fn) for x in e[2:]]
    return fn(e)


def drop_cell(world, i):
    w = copy.deepcopy(world)
    del w['cells'][i]
    for n in w['names']:
        if n.get('avail', 0) > i:
            n['avail'] -= 1
    return w


def inline_name(world, k):
    w = copy.deepcopy(world)
    t = w['names'][k]['t']

    def fn(e):
        if e[0] == 'nm':
            if e[1] == k:
                return list(t)
            if e[1] > k:
                return ['nm', e[1] - 1]
        return e

    for c in w['cells']:
        if 'f' in c:
            c['f'] = _map_expr(c['f'], fn)
    del w['names'][k]
    for n in w['names']:
        if n.get('alias') is not None:
            if n['alias'] == k:
                del n['alias']      # becomes a plain name of the same target
            elif n['alias'] > k:
                n['alias'] -= 1
    return w


def simpler_exprs(e):
    """Strictly smaller replacements of an expression."""
    out = []
    if e[0] in ('op', 'f'):
        for x in e[2:]:
            out.append(x)
        for j in range(2, len(e)):
            for y in simpler_exprs(e[j]):
                out.append(e[:j] + [y] + e[j + 1:])
    if e[0] != 'n':
        out.append(['n', 1])
    return out


def world_candidates(world, keep_formula=False):
    """Yield (description, smaller world)."""
    n = len(world['cells'])
    # halves first, then single cells (last created first)
    if n > 3:
        for lo, hi in ((n // 2, n), (0, n // 2)):
            w = copy.deepcopy(world)
            for i in reversed(range(lo, hi)):
                w = drop_cell(w, i)
            yield 'drop cells %d..%d' % (lo, hi - 1), w, {}
    for i in reversed(range(n)):
        yield 'drop cell %d' % i, drop_cell(world, i), {}
    for k in reversed(range(len(world['names']))):
        yield 'inline name %d' % k, inline_name(world, k), {'dropped_name': k}
    for i in reversed(range(n)):
        c = world['cells'][i]
        if 'f' not in c:
            if c['v'] != 1:
                w = copy.deepcopy(world)
                w['cells'][i]['v'] = 1
                yield 'const cell %d := 1' % i, w, {}
            continue
        if 'arr' not in c and not keep_formula:
            w = copy.deepcopy(world)
            del w['cells'][i]['f']
            w['cells'][i]['v'] = 1
            yield 'cell %d formula -> 1' % i, w, {}
        for e in simpler_exprs(c['f']):
            if 'arr' in c and e[0] == 'n':
                pass
            w = copy.deepcopy(world)
            w['cells'][i]['f'] = e
            yield 'simplify cell %d' % i, w, {}
        if 'arr' in c:
            w = copy.deepcopy(world)
            del w['cells'][i]['arr']
            yield 'cell %d array -> scalar' % i, w, {}


def placement_candidates(world, placement):
    ident = identity_placement(world)
    if placement != ident:
        yield 'identity placement', ident
        for key in ('books', 'names', 'style'):
            if placement.get(key) != ident[key]:
                p = copy.deepcopy(placement)
                p[key] = copy.deepcopy(ident[key])
                yield 'identity %s' % key, p


def fix_placement(placement, meta):
    """Make a placement fit a shrunk world (meta from world_candidates)."""
    if 'dropped_name' not in meta:
        return placement
    p = copy.deepcopy(placement)
    del p['names'][meta['dropped_name']]
    return p
