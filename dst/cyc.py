"""Graph oracle for C10: static dependency graph of a world with labelled
edges, brute-force elementary cycles, selection status of lazy edges."""
from .expr import rect_cells
from .refcalc import RefCalc, INDET, E
from .world import Index

INTERCEPT_ARG0 = ('IFERROR', 'IFNA')
SWALLOW = ('ISERROR', 'COUNT', 'ISNA', 'ISNUMBER', 'ISTEXT', 'ISBLANK',
           'ISLOGICAL')


AGGR = ('SUM', 'MAX', 'MIN')


def occurrences(e, conds=(), icpt=False, swallowed=False, agg=False,
                weak=()):
    """Yield (ref_or_name_node, conds, intercepted, swallowed) per occurrence.

    conds        lazy conditions under which the occurrence is evaluated
    intercepted  inside the value argument of IFERROR / IFNA
    swallowed    inside ISERROR(...) / COUNT(...): consumed, error not passed
    weak         a later IFS condition: consumed by the cycle analysis, but
                 evaluated only if every earlier condition is false - the
                 tuple of those conditions (as 'if' conds wanted False), empty
                 for any other occurrence
    """
    k = e[0]
    if k == 'an':     # spill reference: depends on the cell at the anchor
        e, k = ['r', e[1], e[2], e[3], e[4], e[3], e[4]], 'r'
    if k == 'w':      # whole rows / columns: the part inside the window
        e, k = ['r'] + e[1:7], 'r'
    if k in ('u', 'x'):
        # union: every area; intersection: the common cells only
        from .expr import refs_of
        for x in refs_of(e):
            yield x, conds, icpt, swallowed, agg, weak
        return
    if k in ('r', 'nm'):
        yield e, conds, icpt, swallowed, agg, weak
    elif k == 'op':
        for x in e[2:]:
            yield from occurrences(x, conds, icpt, swallowed, False, weak)
    elif k == 'f':
        fn, a = e[1], e[2:]
        if fn == 'IF' and len(a) >= 2:
            yield from occurrences(a[0], conds, icpt, swallowed, False, weak)
            yield from occurrences(a[1], conds + (('if', a[0], True),),
                                   icpt, swallowed, False, weak)
            if len(a) > 2:
                yield from occurrences(a[2], conds + (('if', a[0], False),),
                                       icpt, swallowed, False, weak)
        elif fn == 'IFS':
            acc = conds
            for i in range(0, len(a) - 1, 2):
                # conditions are always consumed (the library cannot cut a
                # cycle at an IFS condition, and the property speaks of
                # *branches* only); values are lazy
                # (an error in a later condition is only seen if every
                # earlier condition is false: not an always-propagating edge)
                yield from occurrences(
                    a[i], conds, icpt, swallowed, False,
                    weak + tuple(('if', a[j], False) for j in range(0, i, 2)))
                yield from occurrences(a[i + 1], acc + (('if', a[i], True),),
                                       icpt, swallowed, False, weak)
                acc = acc + (('if', a[i], False),)
        elif fn in INTERCEPT_ARG0 and len(a) == 2:
            yield from occurrences(a[0], conds, True, swallowed, False, weak)
            yield from occurrences(a[1], conds + (('iferr', a[0], fn),),
                                   icpt, swallowed, False, weak)
        elif fn in SWALLOW:
            for x in a:
                yield from occurrences(x, conds, icpt, True, False, weak)
        else:
            for x in a:
                yield from occurrences(x, conds, icpt, swallowed,
                                       fn in AGGR, weak)


class Graph:
    def __init__(self, world):
        self.world = world
        self.idx = Index(world)
        n = self.n = len(world['cells'])
        # edge[u][v] = list of occurrence records
        self.edge = [dict() for _ in range(n)]
        self.ranges = []   # (owner, [member cells], rect) multi-cell refs
        for u, c in enumerate(world['cells']):
            if 'f' not in c:
                continue
            for ref, conds, icpt, sw, agg, weak in occurrences(c['f']):
                r = ref if ref[0] == 'r' else world['names'][ref[1]]['t']
                cells = rect_cells(r)
                members = []
                for q in cells:
                    v = self.idx.occupant(q)
                    if v is None:
                        continue
                    members.append(v)
                    self.edge[u].setdefault(v, []).append({
                        'conds': conds, 'icpt': icpt, 'sw': sw,
                        'multi': len(cells) > 1, 'name': ref[0] == 'nm',
                        'agg': agg, 'weak': weak})
                if len(cells) > 1:
                    self.ranges.append((u, members, tuple(r[1:])))
        self.dep = [sorted(d) for d in self.edge]
        self._cycles = None
        self._reach = {}

    # ---- edge labels
    def strict(self, u, v):
        """v is always consumed by u's formula.  (A member of a multi-cell
        rectangle outside an aggregate may or may not be used: the fitting of
        the array to the cell decides - neither strict nor lazy.)"""
        # (a later IFS condition is consumed by the library's cycle analysis
        # but evaluated only if the earlier conditions are all false: the
        # property fixes neither outcome - not strict, not lazy)
        return any(not o['conds'] and not o['weak'] and
                   (not o['multi'] or o['agg'])
                   for o in self.edge[u][v])

    def lazy(self, u, v):
        return all(o['conds'] for o in self.edge[u][v])

    def prop(self, u, v):
        """Errors of v always reach u's result."""
        # (a member of a multi-cell rectangle reaches the result for sure
        # only under an aggregate; in an element-wise / scalar context the
        # fitting of the array decides which members are used)
        return any(not o['conds'] and not o['icpt'] and not o['sw'] and
                   not o['weak'] and (not o['multi'] or o['agg'])
                   for o in self.edge[u][v])

    def intercepted_strict(self, u, v):
        """Always consumed, but in an error-absorbing position (value
        argument of IFERROR/IFNA, ISERROR, COUNT)."""
        return any(not o['conds'] and (o['icpt'] or o['sw'])
                   for o in self.edge[u][v])

    # ---- reachability
    def reach(self, u, pred=None):
        """Cells u depends on, transitively (u included)."""
        key = (u, pred)
        if key in self._reach:
            return self._reach[key]
        seen, stack = {u}, [u]
        while stack:
            x = stack.pop()
            for v in self.dep[x]:
                if v not in seen and (pred is None or
                                      getattr(self, pred)(x, v)):
                    seen.add(v)
                    stack.append(v)
        self._reach[key] = seen
        return seen

    # ---- elementary cycles (brute force)
    def cycles(self):
        if self._cycles is None:
            self._cycles = brute_cycles(
                {u: self.dep[u] for u in range(self.n)})
        return self._cycles

    def cycle_edges(self, cyc):
        return [(cyc[i], cyc[(i + 1) % len(cyc)]) for i in range(len(cyc))]

    def all_strict(self, cyc):
        return all(self.strict(u, v) for u, v in self.cycle_edges(cyc))

    def on_cycle(self):
        s = set()
        for c in self.cycles():
            s.update(c)
        return s


def brute_cycles(g):
    """All elementary cycles of {node: successors}, each as a tuple rotated so
    that its smallest node comes first.  Plain DFS over simple paths, confined
    to the strongly connected component of the start node (mutual
    reachability, computed by a boolean closure) so that large acyclic
    regions cost nothing."""
    nodes = sorted(g)
    reach = {u: set(x for x in g[u] if x in g) for u in nodes}
    changed = True
    while changed:
        changed = False
        for u in nodes:
            new = set()
            for v in reach[u]:
                new |= reach[v]
            if not new <= reach[u]:
                reach[u] |= new
                changed = True
    out = []
    for s in nodes:
        scc = {v for v in reach[s] if s in reach[v]}
        if s not in reach[s]:
            continue
        path = [s]
        onpath = {s}

        def dfs(u):
            for v in sorted(set(g[u])):
                if v == s:
                    out.append(tuple(path))
                elif v > s and v not in onpath and v in scc:
                    path.append(v)
                    onpath.add(v)
                    dfs(v)
                    onpath.discard(v)
                    path.pop()

        dfs(s)
    return out


def canon_cycle(c):
    c = list(c)
    k = c.index(min(c))
    return tuple(c[k:] + c[:k])


class Selection:
    """Selection status of lazy occurrences under determinate guards."""

    def __init__(self, world):
        self.rc = RefCalc(world, lazy=True)

    def cond(self, c):
        """True (holds) / False (does not hold) / None (unknown)."""
        kind, expr, want = c
        if kind == 'if':
            t = self.rc.truth(self.rc.ev(expr))
            if t is INDET or t is E:
                return None
            return t == want
        v = self.rc.ev(expr)
        if v is INDET:
            return None
        if v is E:
            return True if want == 'IFERROR' else None
        return False

    def occurrence(self, conds):
        """'selected' | 'unselected' | 'unknown'."""
        res = [self.cond(c) for c in conds]
        if any(r is False for r in res):
            return 'unselected'
        if all(r is True for r in res):
            return 'selected'
        return 'unknown'

    def edge(self, occs):
        st = [self.occurrence(o['conds']) for o in occs]
        if all(s == 'unselected' for s in st):
            return 'unselected'
        if any(s == 'selected' for s in st):
            return 'selected'
        return 'unknown'
