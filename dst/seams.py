"""Seams the simulator owns: disk, clock, randomness, executor, failing function,
step budget.  All are module attributes / registries / overridable methods the
library looks up at call time; nothing in /repo is modified.
"""
import datetime as _dt
import io
import os
import sys
import zipfile

import numpy as np

SIM_ROOT = '/sim/w'


# ------------------------------------------------------------------- disk
class DiskFault(Exception):
    pass


class _FailingReader(io.RawIOBase):
    """File-like object that raises EIO after ``n`` bytes have been read."""

    def __init__(self, data, n):
        self._b, self._n = io.BytesIO(data), n

    def readable(self):
        return True

    def seekable(self):
        return True

    def seek(self, *a):
        return self._b.seek(*a)

    def tell(self):
        return self._b.tell()

    def read(self, size=-1):
        if self._b.tell() + (size if size and size > 0 else 1 << 30) > self._n:
            raise OSError(5, 'Input/output error (simulated, mid-read)')
        return self._b.read(size)

    def readinto(self, b):
        data = self.read(len(b))
        b[:len(data)] = data
        return len(data)


FAULT_KINDS = ('ENOENT', 'EACCES', 'EIO_OPEN', 'EIO_MID', 'EISDIR', 'TRUNC',
               'GARBAGE', 'FLIP', 'BADEXT')


class SimDisk:
    """In-memory disk behind ``formulas.excel.xlreader.load_workbook``.

    ``files``: abs path -> bytes.  ``plan``: abs path -> {"kind": K, "arg": n,
    "transient": k} (fails the first k opens only when transient > 0).
    A healthy open hands ``BytesIO(data)`` to the real XlReader.
    """

    def __init__(self):
        self.files, self.plan = {}, {}
        self.opens = {}
        self.log = []
        self.fired = {}
        self.served = []
        self._real = None

    def install(self):
        import formulas.excel.xlreader as xr
        if self._real is None:
            self._real = getattr(xr, '_dst_real_load_workbook', None) or \
                xr.load_workbook
            xr._dst_real_load_workbook = self._real
        xr.load_workbook = self.load_workbook
        return self

    def uninstall(self):
        import formulas.excel.xlreader as xr
        if self._real is not None:
            xr.load_workbook = self._real

    def put(self, name, data):
        self.files[os.path.join(SIM_ROOT, name)] = data

    def path(self, name):
        return os.path.join(SIM_ROOT, name)

    def _fire(self, path, kind):
        self.fired[kind] = self.fired.get(kind, 0) + 1
        self.log.append(('fault', os.path.basename(path), kind))

    def load_workbook(self, filename, **kw):
        path = os.path.abspath(filename) if isinstance(filename, str) \
            else filename
        n = self.opens[path] = self.opens.get(path, 0) + 1
        self.log.append(('open', os.path.basename(str(path)), n))
        f = self.plan.get(path)
        if f and f.get('transient') and n > f['transient']:
            f = None
        if path not in self.files:
            self._fire(path, 'ENOENT-absent')
            raise FileNotFoundError(2, 'No such file or directory', path)
        data = self.files[path]
        if f:
            kind, arg = f['kind'], f.get('arg', 0)
            self._fire(path, kind + ('~' if f.get('transient') else ''))
            if kind == 'ENOENT':
                raise FileNotFoundError(2, 'No such file or directory', path)
            if kind == 'EACCES':
                raise PermissionError(13, 'Permission denied', path)
            if kind == 'EIO_OPEN':
                raise OSError(5, 'Input/output error', path)
            if kind == 'EISDIR':
                raise IsADirectoryError(21, 'Is a directory', path)
            if kind == 'BADEXT':
                from openpyxl.utils.exceptions import InvalidFileException
                raise InvalidFileException('unsupported extension (simulated)')
            if kind == 'EIO_MID':
                src = _FailingReader(data, arg % max(len(data), 1))
            else:
                if kind == 'TRUNC':
                    data = data[:arg % max(len(data), 1)]
                elif kind == 'GARBAGE':
                    data = bytes((arg * 7 + i * 13) % 251 for i in range(64))
                elif kind == 'FLIP':
                    data = flip_payload_byte(data, arg)
                src = io.BytesIO(data)
            # a corrupted byte the reader never looks at (CRC-protected member
            # it does not open) is not a fault: remember that it was served
            wb = self._real(src, **kw)
            self.served.append(path)
            self.log.append(('served-despite', os.path.basename(path), kind))
            return wb
        return self._real(io.BytesIO(data), **kw)


def flip_payload_byte(data, arg):
    """Flip one byte inside the compressed payload of a zip member (so that
    CRC / inflate / XML parsing must notice)."""
    try:
        zf = zipfile.ZipFile(io.BytesIO(data))
        infos = [i for i in zf.infolist() if i.compress_size > 8]
        info = infos[arg % len(infos)]
        off = info.header_offset + 30 + len(info.filename.encode()) + \
            len(info.extra) + (arg // 7) % info.compress_size
    except Exception:
        off = arg % len(data)
    off = min(off, len(data) - 1)
    return data[:off] + bytes([data[off] ^ 0x5A]) + data[off + 1:]


# ------------------------------------------------------------------ clock
class SimClock:
    """Virtual clock installed as ``formulas.functions.date.datetime``.

    Every read is logged and advances the clock by a scripted amount."""

    def __init__(self, start, advances=()):
        self.now = start          # datetime.datetime (naive)
        self.advances = list(advances)
        self.k = 0
        self.reads = []           # list of datetime objects handed out
        clock = self

        class _DT(_dt.datetime):
            @classmethod
            def now(cls, tz=None):
                return clock._read()

            @classmethod
            def today(cls):
                return clock._read()

            @classmethod
            def utcnow(cls):
                return clock._read()

        class _D(_dt.date):
            @classmethod
            def today(cls):
                return clock._read().date()

        self.datetime, self.date = _DT, _D
        self._installed = None

    def _read(self):
        t = self.now
        self.reads.append(t)
        if self.advances:
            step = self.advances[self.k % len(self.advances)]
            self.k += 1
            self.now = self.now + _dt.timedelta(seconds=step)
        return t

    def __reduce__(self):
        # dill serialises module globals of functions it pickles by value; the
        # real `datetime` module travels by reference, and so must the clock
        # (otherwise loading a pickled model would re-install a stale copy)
        return _current_clock, ()

    def jump(self, seconds):
        self.now = self.now + _dt.timedelta(seconds=seconds)

    def __getattr__(self, name):
        return getattr(_dt, name)

    def install(self):
        import formulas.functions.date as fd
        global _CLOCK
        _CLOCK = self
        if not hasattr(fd, '_dst_real_datetime'):
            fd._dst_real_datetime = fd.datetime
        fd.datetime = self
        if hasattr(fd, 'time'):
            self._installed = 'time-present'
        return self

    @staticmethod
    def uninstall():
        import formulas.functions.date as fd
        if hasattr(fd, '_dst_real_datetime'):
            fd.datetime = fd._dst_real_datetime


_CLOCK = None


def _current_clock():
    return _CLOCK


def excel_serial(t, with_time=True):
    """Excel serial of a datetime, computed by the harness (1900 system)."""
    d = (t.date() - _dt.date(1899, 12, 30)).days
    if not with_time:
        return float(d)
    # whole seconds: whether the sub-second part is truncated or rounded is
    # left open (comparisons allow one second)
    return d + (t.hour * 3600 + t.minute * 60 + t.second) / 86400.0


# --------------------------------------------------------------- randomness
def seed_numpy(seed):
    np.random.seed(seed % (1 << 32))


def _untemper(y):
    """Inverse of the MT19937 output tempering."""
    y ^= y >> 18
    y ^= (y << 15) & 0xEFC60000
    t = y
    for _ in range(5):
        t = y ^ ((t << 7) & 0x9D2C5680)
    y = t & 0xFFFFFFFF
    t = y
    for _ in range(3):
        t = y ^ (t >> 11)
    return t & 0xFFFFFFFF


def force_draws(value, n=6):
    """Fault injection at the generator: the next ``n`` doubles drawn from
    every legacy RandomState alive in this interpreter (numpy's global one,
    and the private copies that unpickled models carry) are the largest
    double below 1 (value='top') or exactly 0.0 (value='zero') - legal draws
    that the generator effectively never produces on its own.  The library's
    binding of ``np.random.rand`` stays untouched: only the state is edited."""
    import gc
    u = _untemper(0xFFFFFFFF if value == 'top' else 0)
    edited = []
    for rs in [o for o in gc.get_objects()
               if isinstance(o, np.random.RandomState)]:
        st = rs.get_state()
        if st[0] != 'MT19937':
            continue
        while st[2] > 624 - 2 * n:      # refill, then edit the fresh block
            rs.random_sample()
            st = rs.get_state()
        key, pos = st[1].copy(), st[2]
        edited.append((rs, st[1].copy(), pos))
        key[pos:pos + 2 * n] = u
        rs.set_state(('MT19937', key, pos, st[3], st[4]))
    return edited


def unforce_draws(edited):
    """Forced draws that were not consumed are taken back (the generator
    goes on from where it is, on its own numbers)."""
    for rs, key, pos0 in edited:
        st = rs.get_state()
        if st[2] >= pos0:               # still inside the edited block
            rs.set_state(('MT19937', key, st[2], st[3], st[4]))


def numpy_pos():
    st = np.random.get_state()
    return int(st[2]), hash_state(st[1])


def hash_state(a):
    import hashlib
    return hashlib.sha256(np.asarray(a).tobytes()).hexdigest()[:12]


# ----------------------------------------------------------------- executor
class LazyFuture:
    """Future handed out by SimModel.compile_cell; ``result()`` asks the
    executor to run queued jobs in its seeded order until this one is done."""

    def __init__(self, ex, job):
        self.ex, self.job, self._done, self._res = ex, job, False, None

    def result(self, timeout=None):
        while not self._done:
            self.ex.step()
        if isinstance(self._res, BaseException):
            raise self._res
        return self._res

    def done(self):
        return self._done

    # schedula's await_result only needs result(); these complete the duck type
    def cancel(self):
        return False

    def cancelled(self):
        return False

    def running(self):
        return False

    def exception(self, timeout=None):
        self.result()
        return None

    def add_done_callback(self, fn):
        fn(self)


class SimExecutor:
    def __init__(self, rng):
        self.rng, self.queue, self.order = rng, [], []
        self.n = 0

    def submit(self, fn, *a):
        f = LazyFuture(self, (fn, a))
        f.seq = self.n
        self.n += 1
        self.queue.append(f)
        return f

    def step(self):
        k = self.rng.randrange(len(self.queue))
        f = self.queue.pop(k)
        self.order.append(f.seq)
        fn, a = f.job
        try:
            f._res = fn(*a)
        except BaseException as ex:  # delivered at result()
            f._res = ex
        f._done = True


def make_sim_model(executor=None):
    """ExcelModel subclass whose compile_cell returns lazy futures."""
    import concurrent.futures as cf
    from formulas.excel import ExcelModel

    if executor is None:
        return ExcelModel

    # schedula.await_result checks isinstance(obj, Future)
    class _F(LazyFuture, cf.Future):
        def __init__(self, ex, job):
            cf.Future.__init__(self)
            LazyFuture.__init__(self, ex, job)

        result = LazyFuture.result
        done = LazyFuture.done

    def submit(fn, *a):
        f = _F(executor, (fn, a))
        f.seq = executor.n
        executor.n += 1
        executor.queue.append(f)
        return f

    class SimModel(ExcelModel):
        def compile_cell(self, cell, context, references, formula_references):
            sup = super(SimModel, self).compile_cell
            # the arguments are snapshotted now, compiled later
            return submit(sup, cell, dict(context), references,
                          formula_references)

    return SimModel


# ------------------------------------------------------------ failing function
class SimFault:
    """``SIMFAULT(x)``: returns x, or raises while armed."""

    def __init__(self):
        self.armed = False
        self.calls = 0
        self.fired = 0

    def install(self):
        from formulas.functions import get_functions, wrap_func
        from formulas.errors import BaseError
        fault = self

        class SimFaultError(BaseError):
            pass

        def simfault(x):
            fault.calls += 1
            if fault.armed:
                fault.fired += 1
                raise SimFaultError('simulated failure')
            return x

        get_functions()['SIMFAULT'] = wrap_func(simfault)
        return self


# ---------------------------------------------------------------- step budget
class StepBudgetExceeded(BaseException):
    pass


class StepBudget:
    """Counts PY_START + JUMP events via sys.monitoring; raises past a cap."""

    TOOL = 3

    def __init__(self, cap=5_000_000):
        self.cap, self.n, self.on = cap, 0, False
        self.max_seen = 0

    def _cb(self, *a):
        self.n += 1
        if self.n > self.cap:
            self.n = 0
            raise StepBudgetExceeded()

    def start(self):
        m = sys.monitoring
        if not self.on:
            try:
                m.use_tool_id(self.TOOL, 'dst-steps')
            except ValueError:
                pass
            m.register_callback(self.TOOL, m.events.PY_START, self._cb)
            m.register_callback(self.TOOL, m.events.JUMP, self._cb)
            self.on = True
        self.n = 0
        m.set_events(self.TOOL, m.events.PY_START | m.events.JUMP)

    def stop(self):
        m = sys.monitoring
        m.set_events(self.TOOL, 0)
        n, self.n = self.n, 0
        self.max_seen = max(self.max_seen, n)
        return n
