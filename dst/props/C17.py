"""C17 - copies and serialised models are equivalent and independent.

Objects of one lineage (a model, its deepcopy / dill round trip, copies of
copies, ExcelModel.compile results and their copies) are created at
scheduler-chosen points - also after their source has been used - and driven
by interleaved client actors (calculate with overrides, finish again,
from_dict adding a formula cell, write into the loaded books, to_dict, calling
a compiled function).
"""
import copy

from ..rng import Rng, digest
from ..world import (gen_world, gen_placement, identity_placement, profile,
                     dict_items, Index, cell_rect)
from ..expr import Placement, Renderer
from ..oracle import Observation
from ..harness import EventLog
from ..values import MISSING, norm_value
from ..seams import SimDisk
from .. import shrinkers
from . import C07

ID = 'C17'
LEVEL = 'exploration'
RULE = ('One run = one workbook (acyclic, or cyclic with circular handling), '
        'one load schedule, 2-4 objects of one lineage (model, deepcopy, dill '
        'round trip, copy of a copy, ExcelModel.compile result, copy of a '
        'compiled function) and a seeded interleaving of 2-5 operations per '
        'object (calculate with overrides | finish again | from_dict adding '
        'a formula cell | write(books=model.books) | to_dict | call of a '
        'compiled function), copies being taken at scheduler-chosen points. '
        'Every observed result is compared with a fresh object built from '
        'the lineage of the observed object (differential, real code), and '
        'source and copy are compared on 3 input sets right after copying. '
        'Non-trivial: >= 2 objects of the lineage were used with different '
        'inputs and >= 1 operation on another object lies between two '
        'observations of the same object; distinct by (world, objects, steps) '
        'digest.')
ASSUMPTIONS = [
    'volatile-free worlds; results of compiled functions are compared with '
    'the source / a freshly compiled function, not with interpretation (C08)',
    'an object that is itself a copy and has been structurally changed '
    '(finish again, from_dict add) is from then on only a source of '
    'interference: copies deliberately drop cells/books, building on a copy '
    'is not what C17 speaks about',
    'sampling, not enumeration',
]
TIERS = {
    'quick': dict(win=4, max_cells=8, max_objs=3, max_ops=4, max_dill=1),
    'thorough': dict(win=5, max_cells=12, max_objs=4, max_ops=5, max_dill=2),
}


# ------------------------------------------------------------------ generate
def generate(seed, tier):
    t = TIERS[tier]
    rng = Rng(seed, 'world')
    sw = Rng(seed, 'swarm')
    circ = sw.chance(.25)
    prof = profile(
        win=t['win'], max_cells=t['max_cells'], min_cells=3,
        max_books=sw.pick([1, 1, 2]), max_sheets=sw.pick([1, 2]),
        p_arr=0 if circ else sw.pick([0, .12]), p_name=sw.pick([0, .2]),
        p_cross=.4, p_text=0 if circ else sw.pick([0, .06]),
        p_bool=0, p_err=0, p_frac=0 if circ else .1, depth=sw.pick([1, 2]),
        w_if=sw.pick([0, 2]), w_iferror=sw.pick([0, 1]),
        p_back=.3 if circ else 0, w_iserror=0, p_alias=.25, p_arrlit=.06,
        p_refop=0 if circ else sw.pick([0, 0, .1]),
        w_textfn=0 if circ else sw.pick([0, 0, 1.5]),
        w_engfn=0 if circ else sw.pick([0, 0, .7]),
    )
    world = gen_world(rng, prof)
    if sw.chance(.35):
        from ..world import add_named_block
        add_named_block(Rng(seed, 'namedblock'), world)
    if sw.chance(.35):
        from ..world import add_sparse_range
        add_sparse_range(Rng(seed, 'sparse'), world, undefined=sw.chance(.4))
    srng = Rng(seed, 'sched')
    kind = srng.weighted([('dict', 3), ('file', 2)])
    pl = identity_placement(world) if srng.chance(.4) else gen_placement(
        Rng(seed, 'place'), world)
    s = {'kind': kind, 'placement': pl, 'circular': circ}
    if kind == 'dict':
        s['order'] = srng.perm(len(world['cells']) + len(world['names']))
        if len(world['books']) == 1 and len(world['books'][0]) == 1 and \
                srng.chance(.4):
            s['placement'] = dict(pl, bare=True)   # keys 'A1', 'RATE'
    else:
        s.update(mode='loads', book_order=srng.perm(len(world['books'])),
                 sheet_orders={}, exec_seed=None, compact=srng.pick([1, 1, 2]))
    orng = Rng(seed, 'objs')
    objs = [{'kind': 'model'}]
    n_dill = 0
    consts = [i for i, c in enumerate(world['cells']) if 'v' in c and
              isinstance(c['v'], (int, float)) and
              not isinstance(c['v'], bool)]
    formulas_ = [i for i, c in enumerate(world['cells']) if 'f' in c]
    for _ in range(orng.randrange(1, t['max_objs'])):
        k = orng.weighted([('deepcopy', 3), ('dill', 1.5),
                           ('compile', 2 if consts and formulas_ and
                            not circ else 0)])
        if k == 'compile':
            srcs = [j for j, o in enumerate(objs) if is_model(objs, j)]
            # besides constant cells, a defined name or a (fully populated)
            # multi-cell range may be an input of the compiled function
            extra = sorted([tg for tg in C07.gen_targets(orng, world, 4, True)
                            if tg[0] in ('name', 'range')],
                           key=lambda tg: tg[0] != 'name')[:1] \
                if orng.chance(.6) else []
            prev = [o for o in objs if o['kind'] == 'compile' and
                    o['targets'] and o['inputs']]
            if prev and orng.chance(.5):
                # a sibling: the same model compiled again for the same name
                # / range, now WITHOUT the constant cells that were inputs of
                # the first function (their stored values count again)
                p0 = orng.pick(prev)
                objs.append({'kind': 'compile', 'src': p0['src'],
                             'after': objs.index(p0),
                             'targets': copy.deepcopy(p0['targets']),
                             'inputs': [] if orng.chance(.7) else
                             p0['inputs'][:1],
                             'outputs': list(p0['outputs'])})
                continue
            outs_ = sorted(orng.sample(formulas_, orng.randrange(
                1, min(3, len(formulas_)) + 1)))
            # mostly constants that the outputs really depend on
            from ..cyc import Graph
            G_ = Graph(world)
            used = sorted(set(consts) & set().union(
                *[G_.reach(o) for o in outs_]))
            pool = used if used and orng.chance(.7) else consts
            objs.append({'kind': 'compile', 'src': orng.pick(srcs),
                         'targets': extra,
                         'inputs': sorted(orng.sample(pool, orng.randrange(
                             1, min(2, len(pool)) + 1))),
                         'outputs': outs_})
        else:
            if k == 'dill':
                if n_dill >= t['max_dill']:
                    k = 'deepcopy'
                else:
                    n_dill += 1
            objs.append({'kind': k, 'src': orng.randrange(len(objs))})
    steps = []
    remaining = {j: orng.randrange(2, t['max_ops'] + 1)
                 for j in range(len(objs))}
    made = {0}
    guard = 0
    while remaining and guard < 200:
        guard += 1
        j = orng.pick(sorted(remaining))
        if j not in made:
            src = objs[j]['src']
            if src not in made or objs[j].get('after', src) not in made:
                continue
            steps.append({'do': 'make', 'obj': j})
            made.add(j)
            continue
        steps.append({'do': 'op', 'obj': j,
                      'op': gen_op(orng, world, objs, j, kind == 'file')})
        remaining[j] -= 1
        if not remaining[j]:
            del remaining[j]
    copies = [j for j in sorted(made) if j and is_model(objs, j)]
    if kind == 'file' and copies and orng.chance(.25):
        # a copy calculates with overrides and writes "its" workbooks, then
        # the original is finished again and recalculated: nothing of the
        # copy's may have reached the workbooks the original was loaded from
        j = orng.pick(copies)
        steps.append({'do': 'op', 'obj': j, 'op': {
            'op': 'calc', 'outputs': None, 'write': False,
            'inputs': C07.gen_inputs(orng, world, orng.randrange(1, 4),
                                     blanks=True)}})
        steps.append({'do': 'op', 'obj': j, 'op': {'op': 'write_books'}})
        steps.append({'do': 'op', 'obj': 0, 'op': {'op': 'finish'}})
        steps.append({'do': 'op', 'obj': 0, 'op': {
            'op': 'calc', 'outputs': None, 'write': False,
            'inputs': C07.gen_inputs(orng, world, orng.randrange(0, 3))}})
    return {'prop': ID, 'seed': seed, 'tier': tier, 'world': world,
            'schedule': s, 'objects': objs, 'steps': steps,
            'equiv_inputs': [C07.gen_inputs(orng, world, orng.randrange(0, 3),
                                            blanks=orng.chance(.3))
                             for _ in range(3)],
            'equiv_args': [[C07.gen_value(orng) for _ in range(3)]
                           for _ in range(3)]}


def is_model(objs, j):
    while objs[j]['kind'] in ('deepcopy', 'dill'):
        j = objs[j]['src']
    return objs[j]['kind'] == 'model'


def gen_op(rng, world, objs, j, kind_file):
    if not is_model(objs, j):
        return {'op': 'call', 'args': [C07.gen_value(rng) for _ in range(3)]}
    original = j == 0
    k = rng.weighted([('calc', 6), ('finish', 1), ('add', 1.5),
                      # (a copy carries no workbooks: there the call raises,
                      # which is recorded and not judged - unless a change
                      # makes copies share the original's workbooks)
                      ('write_books', 1 if kind_file else 0),
                      ('to_dict', 1)])
    op = {'op': k}
    if k == 'calc':
        op['inputs'] = C07.gen_inputs(rng, world, rng.randrange(0, 4),
                                      blanks=rng.chance(.5))
        op['outputs'] = None
        op['write'] = rng.chance(.3)   # followed by write(): books observed
    elif k == 'add':
        op['cell'] = gen_added_cell(rng, world)
        if op['cell'] is None:
            op = {'op': 'to_dict'}
    return op


def gen_added_cell(rng, world):
    """A formula cell at a position no cell occupies and no reference covers."""
    from ..expr import refs_of, rect_cells
    idx = Index(world)
    covered = set(idx.occ)
    for c in world['cells']:
        if 'f' in c:
            for x in refs_of(c['f']):
                r = x if x[0] == 'r' else world['names'][x[1]]['t']
                covered.update(rect_cells(r))
    for n in world['names']:
        covered.update(rect_cells(n['t']))
    free = [(b, s, r, c) for b, bk in enumerate(world['books'])
            for s, (h, w) in enumerate(bk)
            for r in range(h + 2) for c in range(w + 2)
            if (b, s, r, c) not in covered]
    if not free:
        return None
    at = rng.pick(free)
    cells = [c for c in world['cells'] if 'arr' not in c]
    if not cells:
        return None
    a, b2 = rng.pick(cells), rng.pick(cells)
    ra = ['r'] + a['at'] + a['at'][2:]
    rb = ['r'] + b2['at'] + b2['at'][2:]
    return {'at': list(at), 'f': ['op', rng.pick(['+', '-', '*']), ra,
                                  ['op', '+', rb, ['n', rng.randrange(0, 5)]]]}


# ------------------------------------------------------------------- execute
class Obj:
    def __init__(self, kind, obj, adds, meta=None, copied=False):
        self.kind, self.obj, self.adds = kind, obj, list(adds)
        self.meta = meta or {}
        self.copied = copied          # is itself a copy
        self.changed = False          # structurally changed copy: unobserved
        self.observations = 0
        self.last_obs_step = None


def build(world, s):
    from ..harness import build_dict_model, build_file_model
    if s['kind'] == 'dict':
        return build_dict_model(world, s['placement'], s.get('order'),
                                circular=s.get('circular', False))
    m, disk = build_file_model(world, s['placement'], s,
                               circular=s.get('circular', False))
    disk.uninstall()
    return m


def added_item(world, P, cell):
    R = Renderer(world, P, 'dict')
    b, s, r, c = cell['at']
    return P.cell_id(b, s, r, c), R.formula(cell['f'], (b, s))


def apply_add(world, P, m, cell):
    key, text = added_item(world, P, cell)
    m.from_dict({key: text})


def fresh_model(world, s, adds):
    P = Placement(s['placement'])
    m = build(world, s)
    for cell in adds:
        apply_add(world, P, m, cell)
    return m


def books_digest(books):
    """What write() returned: every cell of every sheet of every book."""
    from formulas.excel import BOOK
    out = []
    for key in sorted(books):
        wb = books[key][BOOK]
        for ws in wb.worksheets:
            for row in ws.iter_rows():
                for c in row:
                    if c.value is not None:
                        out.append([key, ws.title, c.coordinate,
                                    repr(c.value)])
    return sorted(out)


def observe_model(world, s, m, ins, adds, all_adds=(), write=False):
    """Observables of one calculation: every world cell and name, plus every
    cell that ANY object of the run ever adds (a cell added to another object
    must stay absent here)."""
    P = Placement(s['placement'])
    d, _ = C07.lib_inputs(world, P, m, ins)
    sol = m.calculate(inputs=d)
    o = Observation(world, s['placement'], sol).normal()
    for cell in list(adds) + [c for c in all_adds if c not in adds]:
        key, _ = added_item(world, P, cell)
        o['add@%s' % (cell['at'],)] = norm_value(sol[key]) \
            if key in sol else MISSING
    if write:
        try:
            o['written'] = books_digest(m.write())
        except Exception as ex:
            o['written'] = 'raised %s' % type(ex).__name__
    return o


def call_func(fn, args, n):
    try:
        res = fn(*[C07.to_lib(a) for a in args])
        if not isinstance(res, (list, tuple)):
            res = [res]
        return ['ok'] + [norm_value(v) for v in res]
    except Exception as ex:
        return ['raised', type(ex).__name__]


def n_inputs(spec):
    return len(spec['inputs']) + len(spec.get('targets') or [])


def shaped_args(world, spec, args):
    """Scalar args for the cell inputs, nested lists for name / range ones."""
    out = list(args[:len(spec['inputs'])])
    for k, tg in enumerate(spec.get('targets') or []):
        h, w = C07.shape_of(world, tg)
        v = args[(len(spec['inputs']) + k) % len(args)]
        out.append(v if (h, w) == (1, 1) else [[v] * w for _ in range(h)])
    return out


def compile_func(world, P, m, spec):
    ins = [P.rect_id(*cell_rect(world['cells'][i])) for i in spec['inputs']]
    ins += [C07.target_id(world, P, tg) for tg in spec.get('targets') or []]
    outs = [P.rect_id(*cell_rect(world['cells'][i])) for i in spec['outputs']]
    return m.compile(ins, outs)


def execute(trace, env=None):
    import dill
    world, s = trace['world'], trace['schedule']
    P = Placement(s['placement'])
    log = EventLog()
    stats = {'ops': {}, 'objects': {}, 'equiv_compared': 0,
             'indep_compared': 0, 'func_compared': 0,
             'interference_ops_on_changed_copies': 0, 'ignored_errors': 0}
    viol = []

    def fail(clause, detail, **kw):
        v = {'clause': clause, 'detail': detail}
        v.update(kw)
        viol.append(v)

    try:
        objs = {0: Obj('model', build(world, s), [])}
    except Exception as ex:
        import traceback
        fail('C17.load', 'load raised %r' % ex,
             tb=traceback.format_exc()[-1500:])
        return result(trace, viol, log, stats, False)
    used_inputs = {}
    all_adds = [st['op']['cell'] for st in trace['steps']
                if st['do'] == 'op' and st['op']['op'] == 'add']
    # References first: the lineage of every object at every step is a static
    # function of the trace, so the fresh-lineage results are computed before
    # any object of the run is touched - state shared at module level cannot
    # pollute reference and subject alike.
    refs = precompute_refs(trace, world, s, P, all_adds, stats)
    interleaved = False
    last_actor = None
    for si, step in enumerate(trace['steps']):
        j = step['obj']
        spec = trace['objects'][j]
        if step['do'] == 'make':
            src = objs.get(spec['src'])
            if src is None:
                objs[j] = None
                continue
            try:
                if spec['kind'] == 'compile':
                    if src.changed:
                        objs[j] = None
                        continue
                    fn = compile_func(world, P, src.obj, spec)
                    objs[j] = Obj('func', fn, src.adds, {
                        'spec': spec, 'n': n_inputs(spec)})
                else:
                    new = copy.deepcopy(src.obj) if spec['kind'] == 'deepcopy' \
                        else dill.loads(dill.dumps(src.obj))
                    objs[j] = Obj(src.kind, new, src.adds, dict(src.meta),
                                  copied=True)
                    objs[j].changed = src.changed
            except Exception as ex:
                if spec['kind'] == 'compile':
                    objs[j] = None      # compile may refuse (C08 territory)
                    stats['ignored_errors'] += 1
                    log.add('env', 'make-failed', obj=j,
                            err=type(ex).__name__)
                    continue
                import traceback
                fail('C17.equiv', '%s of object %d raised %r' % (
                    spec['kind'], spec['src'], ex),
                    tb=traceback.format_exc()[-1500:])
                objs[j] = None
                continue
            stats['objects'][spec['kind']] = \
                stats['objects'].get(spec['kind'], 0) + 1
            log.add('env', 'make', obj=j, kind=spec['kind'], src=spec['src'])
            # --- C17.equiv right after copying
            o = objs[j]
            if spec['kind'] in ('deepcopy', 'dill') and not o.changed:
                for q in range(3):
                    try:
                        if o.kind == 'model':
                            ins = trace['equiv_inputs'][q]
                            a = observe_model(world, s, src.obj, ins, o.adds,
                                              all_adds)
                            b = observe_model(world, s, o.obj, ins, o.adds,
                                              all_adds)
                        else:
                            args = trace['equiv_args'][q]
                            args = shaped_args(world, o.meta['spec'], args)
                            a = call_func(src.obj, args, o.meta['n'])
                            b = call_func(o.obj, args, o.meta['n'])
                    except Exception as ex:
                        import traceback
                        fail('C17.equiv', 'calculation on source/copy raised '
                             '%r' % ex, tb=traceback.format_exc()[-1500:])
                        break
                    stats['equiv_compared'] += 1
                    if a != b:
                        key = first_diff(a, b)
                        fail('C17.equiv' if o.kind == 'model' else 'C17.func',
                             '%s of object %d differs from its source on '
                             'input set %d: %s' % (spec['kind'], spec['src'],
                                                   q, key), obj=j)
                        break
            continue
        o = objs.get(j)
        if o is None:
            continue
        op = step['op']
        k = op['op']
        stats['ops'][k] = stats['ops'].get(k, 0) + 1
        if last_actor is not None and last_actor != j:
            interleaved = True
        last_actor = j
        try:
            if k == 'calc':
                if o.changed:
                    d, _ = C07.lib_inputs(world, P, o.obj, op['inputs'])
                    o.obj.calculate(inputs=d)
                    stats['interference_ops_on_changed_copies'] += 1
                    log.add('actor%d' % j, 'calc-unobserved')
                    continue
                got = observe_model(world, s, o.obj, op['inputs'], o.adds,
                                    all_adds, op.get('write', False))
                ref = refs.get(si)
                if ref is None:
                    ref = observe_model(world, s,
                                        fresh_model(world, s, o.adds),
                                        op['inputs'], o.adds, all_adds,
                                        op.get('write', False))
                stats['indep_compared'] += 1
                o.observations += 1
                used_inputs.setdefault(j, []).append(digest(op['inputs']))
                log.add('actor%d' % j, 'calc',
                        inputs=sorted(C07.target_id(world, P, t)
                                      for t, _ in op['inputs']))
                if got != ref:
                    fail('C17.indep', 'object %d (%s%s): %s differs from a '
                         'fresh model of its lineage with the same inputs'
                         % (j, o.kind, ', a copy' if o.copied else '',
                            first_diff(got, ref)), obj=j, step=si)
            elif k == 'call':
                got = call_func(o.obj, shaped_args(world, o.meta['spec'],
                                                   op['args']), o.meta['n'])
                ref = refs.get(si)
                if ref is None:
                    stats['ignored_errors'] += 1
                    continue
                stats['func_compared'] += 1
                o.observations += 1
                used_inputs.setdefault(j, []).append(digest(op['args']))
                log.add('actor%d' % j, 'call')
                if got != ref:
                    fail('C17.func', 'compiled function object %d%s returns '
                         '%s, a freshly compiled one %s' % (
                             j, ' (a copy)' if o.copied else '', got, ref),
                         obj=j, step=si)
            elif k == 'finish':
                # (finishing a circular model again runs the cycle solver a
                # second time, on the graph it has already cut: where no
                # clause of C10 fixes the outcome it may differ from the
                # model finished once - from then on the object is only a
                # source of interference, like a structurally changed copy)
                if o.copied or s.get('circular'):
                    o.changed = True
                disk = SimDisk().install()
                try:
                    if s['kind'] == 'dict' or o.copied:
                        o.obj.finish(complete=False,
                                     circular=s.get('circular', False))
                    else:
                        o.obj.finish(circular=s.get('circular', False))
                finally:
                    disk.uninstall()
                log.add('actor%d' % j, 'finish')
            elif k == 'add':
                if o.copied:
                    o.changed = True
                apply_add(world, P, o.obj, op['cell'])
                if not o.copied:
                    o.adds.append(op['cell'])
                log.add('actor%d' % j, 'add', at=op['cell']['at'])
            elif k == 'write_books':
                o.obj.write(books=o.obj.books)
                log.add('actor%d' % j, 'write_books')
            elif k == 'to_dict':
                o.obj.to_dict()
                log.add('actor%d' % j, 'to_dict')
        except Exception as ex:
            if o.changed or (o.copied and k in ('finish', 'add')) or \
                    k in ('write_books', 'to_dict') or \
                    (k in ('calc', 'call') and si in refs and
                     refs[si] is None):
                # not judged: interference on a changed copy; what write /
                # to_dict themselves do (C16 / C09); a calculation that a
                # fresh object of the lineage refuses in the same way
                stats['ignored_errors'] += 1
                log.add('actor%d' % j, k + '-raised', err=type(ex).__name__)
                continue
            import traceback
            fail('C17.indep', 'operation %s on object %d raised %r' % (
                k, j, ex), tb=traceback.format_exc()[-1500:], obj=j, step=si)
    n_used = [j for j, v in used_inputs.items() if v]
    nontrivial = len(n_used) >= 2 and interleaved and \
        len({x for v in used_inputs.values() for x in v}) >= 2
    return result(trace, viol, log, stats, nontrivial)


def precompute_refs(trace, world, s, P, all_adds, stats):
    adds, copied, changed, spec_of = {0: []}, {0: False}, {0: False}, {}
    refs = {}
    for si, st in enumerate(trace['steps']):
        j = st['obj']
        spec = trace['objects'][j]
        if st['do'] == 'make':
            src = spec['src']
            if src not in adds:
                continue
            if spec['kind'] == 'compile' and changed[src]:
                continue
            adds[j] = list(adds[src])
            copied[j] = spec['kind'] != 'compile'
            changed[j] = changed[src]
            spec_of[j] = spec if spec['kind'] == 'compile' else \
                spec_of.get(src)
            continue
        if j not in adds:
            continue
        op = st['op']
        k = op['op']
        try:
            if k == 'calc' and not changed[j]:
                refs[si] = observe_model(
                    world, s, fresh_model(world, s, adds[j]), op['inputs'],
                    adds[j], all_adds, op.get('write', False))
            elif k == 'call' and spec_of.get(j):
                fm = fresh_model(world, s, adds[j])
                ff = compile_func(world, P, fm, spec_of[j])
                refs[si] = call_func(ff, shaped_args(world, spec_of[j],
                                                     op['args']),
                                     n_inputs(spec_of[j]))
            elif k in ('finish', 'add') and copied[j] and \
                    trace['objects'][j]['kind'] != 'compile':
                changed[j] = True
            elif k == 'finish' and trace['schedule'].get('circular') and \
                    trace['objects'][j]['kind'] != 'compile':
                changed[j] = True
            if k == 'add' and not copied[j]:
                adds[j].append(op['cell'])
        except Exception:
            refs[si] = None
    return refs


def first_diff(a, b):
    if isinstance(a, dict):
        for k in sorted(a):
            if a[k] != b.get(k):
                return '%s = %s vs %s' % (k, a[k], b.get(k))
        return 'key sets differ'
    return '%s vs %s' % (a, b)


def signature(trace, v):
    """F-C17-1: a function compiled from a model reads the blank cells of
    sparse ranges (>= 2 unpopulated cells) from the SOURCE MODEL's last
    solution: an override of such a blank cell on the model shows up in later
    calls of the compiled function."""
    if v['clause'] == 'C17.indep' and 'step' in v:
        # F-C07-3 seen through C17: write(books=model.books) followed by a
        # second finish() on the same object re-reads formerly blank cells
        # (the object itself, or the object it was copied from before: a copy
        # made afterwards carries the re-read constants along)
        line, j = set(), v.get('obj')
        while j is not None and j not in line:
            line.add(j)
            j = trace['objects'][j].get('src') if isinstance(j, int) and \
                j < len(trace['objects']) else None
        state = 0
        for st in trace['steps'][:v['step']]:
            if st['do'] == 'op' and st['obj'] in line:
                if st['op']['op'] == 'write_books':
                    state = 1
                elif st['op']['op'] == 'finish' and state == 1:
                    return 'C17.indep/write-loaded-books-then-refinish'
        return None
    if v['clause'] != 'C17.func' or 'step' not in v:
        return None
    from ..cyc import Graph
    from ..expr import refs_of, rect_cells
    world = trace['world']
    blanks = set()
    for st in trace['steps'][:v['step']]:
        if st['do'] == 'op' and st['op']['op'] == 'calc':
            for t, _ in st['op']['inputs']:
                if t[0] == 'blank':
                    blanks.add(tuple(t[1]))
                elif t[0] in ('name', 'range'):
                    r = world['names'][t[1]]['t'] if t[0] == 'name' else t[1]
                    idx = Index(world)
                    blanks.update(p for p in rect_cells(r)
                                  if idx.occupant(p) is None)
    if not blanks:
        return None
    spec = trace['objects'][v['obj']]
    while spec['kind'] != 'compile':
        spec = trace['objects'][spec['src']]
    G = Graph(world)
    for o in spec['outputs']:
        for u in G.reach(o):
            c = world['cells'][u]
            if 'f' not in c:
                continue
            for x in refs_of(c['f']):
                r = x if x[0] == 'r' else world['names'][x[1]]['t']
                if blanks & set(rect_cells(r)):
                    return 'C17.func/compiled-function-reads-blank-cells-' \
                        'from-model-solution'
    return None


def result(trace, viol, log, stats, nontrivial):
    return {'violations': viol, 'outcome': 'n/a', 'events': log.digest(),
            'stats': stats, 'nontrivial': nontrivial,
            'case_key': digest([trace['world'], trace['schedule'],
                                trace['objects'], trace['steps']])}


def sample(trace):
    return {'workbook': dict(dict_items(trace['world'],
                                        trace['schedule']['placement'])),
            'load': {k: v for k, v in trace['schedule'].items()
                     if k != 'placement'},
            'objects': trace['objects'], 'steps': trace['steps']}


def shrink_candidates(trace):
    steps = trace['steps']
    for k in reversed(range(len(steps))):
        if steps[k]['do'] == 'op':
            t = copy.deepcopy(trace)
            del t['steps'][k]
            yield 'drop step %d' % k, t
    last = len(trace['objects']) - 1
    if last > 0 and not any(x['obj'] == last and x['do'] == 'op'
                            for x in steps) and not any(
            o.get('src') == last for o in trace['objects']):
        t = copy.deepcopy(trace)
        del t['objects'][last]
        t['steps'] = [x for x in t['steps'] if x['obj'] != last]
        yield 'drop object %d' % last, t
    for k, st in enumerate(steps):
        if st['do'] == 'op' and st['op'].get('inputs'):
            for q in reversed(range(len(st['op']['inputs']))):
                t = copy.deepcopy(trace)
                del t['steps'][k]['op']['inputs'][q]
                yield 'step %d: drop input %d' % (k, q), t
    for q in range(3):
        if trace['equiv_inputs'][q]:
            t = copy.deepcopy(trace)
            t['equiv_inputs'][q] = []
            yield 'equiv input set %d := {}' % q, t
    world = trace['world']
    for desc, w, meta in shrinkers.world_candidates(world):
        if desc.startswith('drop cell') or 'dropped_name' in meta:
            continue       # targets are indexed: keep the cell list stable
        bad = False
        for o in trace['objects']:
            for i in o.get('inputs', []):
                if 'v' not in w['cells'][i]:
                    bad = True
            for i in o.get('outputs', []):
                if 'f' not in w['cells'][i]:
                    bad = True
        if bad:
            continue
        t = copy.deepcopy(trace)
        t['world'] = w
        yield desc, t
    for desc, p in shrinkers.placement_candidates(
            world, trace['schedule']['placement']):
        t = copy.deepcopy(trace)
        t['schedule']['placement'] = p
        yield desc, t
    s = trace['schedule']
    if s['kind'] == 'dict':
        ident = list(range(len(world['cells']) + len(world['names'])))
        if s.get('order') != ident:
            t = copy.deepcopy(trace)
            t['schedule']['order'] = ident
            yield 'identity order', t
