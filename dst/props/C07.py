"""C07 - recalculation with overrides is exact and leaves no trace.

One long-lived model (dictionary or file path) is driven through a seeded
history of <= 8 public-API operations (calculate with other overrides,
calculation aborted part-way by the failing user function SIMFAULT,
compile+call, to_dict, write to fresh / loaded books / the simulated disk,
deepcopy, finish again) followed by one *observed* calculation.
"""
import copy
import os
import shutil

from ..rng import Rng, digest
from ..world import (gen_world, gen_placement, identity_placement, profile,
                     dict_items, Index, cell_rect, cell_positions)
from ..expr import Placement, refs_of, rect_cells, walk
from ..oracle import Observation, FixedPoint
from ..harness import EventLog, build_dict_model, build_file_model
from ..values import MISSING, norm_value, norm_scalar
from ..seams import SimFault, SimDisk
from .. import shrinkers

ID = 'C07'
LEVEL = 'exploration'
RULE = ('One run = one acyclic workbook, one load schedule and a history of '
        '0-8 operations from {calculate(other inputs/outputs), calculation '
        'aborted part-way by SIMFAULT, compile+call, to_dict, write (fresh '
        'books | loaded books | simulated disk), deepcopy, finish again} '
        'followed by an observed calculate(inputs, outputs) with 0-3 '
        'overridden constant cells / formula cells / array-formula cells / '
        'defined names / multi-cell ranges / whole rows and values of every '
        'kind (numbers, text, logicals, errors, blanks, typed numpy arrays). '
        '20 % of the worlds are circular (finish(circular=True)) and the '
        'observed overrides put a constant on every cycle. '
        'Non-trivial: the history has >= 1 earlier operation with a different '
        'input set AND the observed overrides change >= 1 formula cell that '
        'is not itself overridden; distinct by (world, schedule, history) '
        'digest.')
ASSUMPTIONS = [
    'formula semantics trusted (fixed-point oracle uses the stand-alone '
    'formula compiler); the differential oracle uses a fresh model built by '
    'the same code along the same load schedule',
    'results of compile()/calls are not judged (C08); exceptions they raise '
    'are recorded in the history and otherwise ignored',
    'sampling, not enumeration',
]
TIERS = {
    'quick': dict(win=4, max_cells=9, max_ops=6),
    'thorough': dict(win=5, max_cells=13, max_ops=8),
}
WORK = os.path.join(os.path.dirname(os.path.dirname(os.path.dirname(
    os.path.abspath(__file__)))), '.work')

_fault = None


def fault():
    global _fault
    if _fault is None:
        _fault = SimFault().install()
    return _fault


# ------------------------------------------------------------------ generate
def gen_value(rng):
    k = rng.random()
    if k < .55:
        return rng.randrange(-4, 12)
    if k < .7:
        return rng.randrange(-8, 40) / 8.0
    if k < .8:
        return rng.pick(['x', 'ab', 'Hello'])
    if k < .9:
        return rng.chance(.5)
    if k < .94:
        return {'blank': 1}     # the cell is emptied
    return {'e': rng.pick(['#N/A', '#DIV/0!', '#VALUE!', '#NUM!', '#REF!'])}


def referenced_rects(world):
    out = []
    for c in world['cells']:
        if 'f' in c:
            for x in refs_of(c['f']):
                if x[0] == 'r' and (x[3], x[4]) != (x[5], x[6]) and \
                        x not in out:
                    out.append(x)
    return out


def blank_positions(world):
    """Unpopulated positions that some reference of the world covers."""
    idx = Index(world)
    out = []
    for c in world['cells']:
        if 'f' in c:
            for x in refs_of(c['f']):
                r = x if x[0] == 'r' else world['names'][x[1]]['t']
                for p in rect_cells(r):
                    if idx.occupant(p) is None and list(p) not in out:
                        out.append(list(p))
    return out


def gen_targets(rng, world, n, for_input, blanks=False):
    idx = Index(world)
    cells = list(range(len(world['cells'])))
    rects = referenced_rects(world)
    names = list(range(len(world['names'])))
    bl = blank_positions(world) if blanks and for_input else []
    # whole rows / columns some formula reads (they always cover blanks)
    wholes = [x for c in world['cells'] if 'f' in c for x in walk(c['f'])
              if x[0] == 'w'] if blanks and for_input else []
    out, used = [], set()
    for _ in range(n):
        kind = rng.weighted([('cell', 6), ('name', 1.5 if names else 0),
                             ('range', 1.5 if rects else 0),
                             ('blank', 2.5 if bl else 0),
                             ('whole', 4 if wholes else 0)])
        if kind == 'whole':
            x = rng.pick(wholes)
            # a range target over the part inside the window; the third item
            # says that the id (and the value) span the sheet
            t = ['range', ['r'] + x[1:7], x[7]]
            pos = rect_cells(t[1])
        elif kind == 'blank':
            p = rng.pick(bl)
            t = ['blank', p]
            pos = [tuple(p)]
        elif kind == 'cell':
            i = rng.pick(cells)
            t = ['cell', i]
            pos = cell_positions(world['cells'][i])
        elif kind == 'name':
            k = rng.pick(names)
            t = ['name', k]
            pos = rect_cells(world['names'][k]['t'])
        else:
            r = rng.pick(rects)
            t = ['range', r]
            pos = rect_cells(r)
        if for_input:
            # two overrides of one position in one call would make the
            # outcome depend on which one the caller "means": not generated.
            # A rectangle that cuts through an array-formula cell would
            # override part of one node: not generated either.
            if any(p in used for p in pos):
                continue
            # Harness rule: a name / range override covers populated cells
            # only.  "Supplying it to the underlying cells" presupposes that
            # the cells exist; what other, overlapping rectangles see of a
            # value pushed onto *unpopulated* positions is not something the
            # statement settles.
            # (With ``blanks`` the rule is lifted: such overrides are used
            # in histories, and in observed calculations that are judged by
            # the differential clauses only.)
            if t[0] in ('name', 'range') and not blanks and any(
                    idx.occupant(p) is None for p in pos):
                continue
            cut = False
            for p in pos:
                o = idx.occupant(p)
                if o is not None and 'arr' in world['cells'][o] and not all(
                        q in pos for q in cell_positions(world['cells'][o])):
                    cut = True
            if cut:
                continue
            used.update(pos)
        if t not in out:
            out.append(t)
    return out


def shape_of(world, t):
    if t[0] == 'blank':
        return (1, 1)
    if t[0] == 'cell':
        return tuple(world['cells'][t[1]].get('arr') or (1, 1))
    r = world['names'][t[1]]['t'] if t[0] == 'name' else t[1]
    return (r[5] - r[3] + 1, r[6] - r[4] + 1)


def typed_array(rng, h, w):
    """A numpy array of one dtype as an override value (callers do pass
    those): {'nd': dtype, 'v': nested list}."""
    dt = rng.pick(['bool', 'int64', 'float64'])
    if dt == 'bool':
        v = [[rng.chance(.5) for _ in range(w)] for _ in range(h)]
    elif dt == 'int64':
        v = [[rng.randrange(-3, 9) for _ in range(w)] for _ in range(h)]
    else:
        v = [[rng.randrange(-8, 40) / 8.0 for _ in range(w)]
             for _ in range(h)]
    return {'nd': dt, 'v': v}


def regen_value(rng, world, t):
    h, w = shape_of(world, t)
    if (h, w) == (1, 1):
        return gen_value(rng)
    if rng.chance(.15):
        return typed_array(rng, h, w)
    return [[gen_value(rng) for _ in range(w)] for _ in range(h)]


def gen_inputs(rng, world, n, blanks=False):
    ins = []
    for t in gen_targets(rng, world, n, True, blanks):
        h, w = shape_of(world, t)
        if (h, w) == (1, 1):
            v = gen_value(rng)
        elif rng.chance(.25):
            v = typed_array(rng, h, w)
        else:
            v = [[gen_value(rng) for _ in range(w)] for _ in range(h)]
        ins.append([t, v])
    return ins


def gen_op(rng, world, kind_file):
    k = rng.weighted([('calc', 5), ('calc_fault', 1.5), ('compile', 1.5),
                      ('to_dict', 1), ('write_fresh', 1),
                      ('write_books', 1 if kind_file else 0),
                      ('write_disk', 1), ('deepcopy', 1), ('finish', 1)])
    op = {'op': k}
    if k in ('calc', 'calc_fault'):
        op['inputs'] = gen_inputs(rng, world, rng.randrange(0, 4),
                                  blanks=rng.chance(.5))
        op['outputs'] = gen_targets(rng, world, rng.randrange(1, 4), False) \
            if rng.chance(.3) else None
    elif k == 'compile':
        ins = [t for t, _ in gen_inputs(rng, world, rng.randrange(1, 3))]
        op['inputs'] = ins
        op['outputs'] = gen_targets(rng, world, rng.randrange(1, 3), False)
        op['args'] = [gen_value(rng) if shape_of(world, t) == (1, 1) else
                      [[gen_value(rng) for _ in range(shape_of(world, t)[1])]
                       for _ in range(shape_of(world, t)[0])] for t in ins]
    return op


def add_cover_of_array(rng, world):
    """If the world has an array-formula cell, sometimes add a formula over a
    rectangle that contains the whole block plus a neighbouring row / column
    (such a range node distributes a supplied value onto a multi-cell node)."""
    arrs = [c for c in world['cells'] if 'arr' in c]
    if not arrs or not rng.chance(.6):
        return None
    idx = Index(world)
    a = rng.pick(arrs)
    b, s, r1, c1, r2, c2 = cell_rect(a)
    h, w = world['books'][b][s]
    grow = rng.pick(['left', 'right', 'up', 'down', 'none'])
    if grow == 'left' and c1 > 0:
        c1 -= 1
    elif grow == 'right' and c2 < w - 1:
        c2 += 1
    elif grow == 'up' and r1 > 0:
        r1 -= 1
    elif grow == 'down' and r2 < h - 1:
        r2 += 1
    rect = ['r', b, s, r1, c1, r2, c2]
    # the new cell must not lie inside the rectangle nor upstream of the block
    free = [(b, s, r, c) for r in range(h + 1) for c in range(w + 1)
            if idx.occupant((b, s, r, c)) is None and
            not (r1 <= r <= r2 and c1 <= c <= c2)]
    covered = set()
    for c in world['cells']:
        if 'f' in c:
            for x in refs_of(c['f']):
                rr = x if x[0] == 'r' else world['names'][x[1]]['t']
                covered.update(rect_cells(rr))
    for n in world['names']:
        covered.update(rect_cells(n['t']))
    free = [p for p in free if p not in covered]
    if not free:
        return
    # every populated member must have been created before (it is: the new
    # cell is appended last)
    at = rng.pick(free)
    world['cells'].append({'at': list(at), 'f': ['f', rng.pick(
        ['SUM', 'MAX', 'COUNT']), rect]})
    world['books'][b][s] = [max(h, at[2] + 1), max(w, at[3] + 1)]
    return rect


def generate(seed, tier):
    t = TIERS[tier]
    rng = Rng(seed, 'world')
    sw = Rng(seed, 'swarm')
    prof = profile(
        win=t['win'], max_cells=t['max_cells'], min_cells=3,
        max_books=sw.pick([1, 1, 2]), max_sheets=sw.pick([1, 2]),
        p_arr=sw.pick([0, .12]), p_name=sw.pick([0, .2, .3]),
        p_cross=.4, p_text=sw.pick([0, .06]), p_bool=sw.pick([0, .05]),
        p_err=sw.pick([0, .05]), depth=sw.pick([1, 2, 2]), p_alias=.25, p_arrlit=.06,
        p_refop=sw.pick([0, 0, .1]),
        w_if=sw.pick([0, 2]), w_iferror=sw.pick([0, 1]),
        w_concat=sw.pick([0, 1]), w_istype=sw.pick([0, .7]),
        w_textfn=sw.pick([0, 0, 1.5]), w_engfn=sw.pick([0, 0, .7]),
    )
    world = gen_world(rng, prof)
    if sw.chance(.35):
        from ..world import add_named_block
        add_named_block(Rng(seed, 'namedblock'), world)
    if sw.chance(.35):
        from ..world import add_sparse_range
        add_sparse_range(Rng(seed, 'sparse'), world)
    cover = add_cover_of_array(Rng(seed, 'cover'), world)
    if sw.chance(.08):
        # whole rows (last motif: the node records the window)
        from ..world import add_whole_refs
        add_whole_refs(Rng(seed, 'whole'), world)
    breakers = None
    if sw.chance(.2):
        world, breakers = gen_circular(seed, t)
    frng = Rng(seed, 'fault')
    # SIMFAULT wrappers around some formulas
    if sw.chance(.5):
        for c in world['cells']:
            if 'f' in c and 'arr' not in c and frng.chance(.3):
                c['f'] = ['f', 'SIMFAULT', c['f']]
    srng = Rng(seed, 'sched')
    kind = srng.weighted([('dict', 3), ('file', 2)])
    pl = identity_placement(world) if srng.chance(.4) else gen_placement(
        Rng(seed, 'place'), world)
    s = {'kind': kind, 'placement': pl}
    if breakers is not None:
        s['circular'] = True
    n_items = len(world['cells']) + len(world['names'])
    if kind == 'dict':
        s['order'] = srng.perm(n_items)
        if len(world['books']) == 1 and len(world['books'][0]) == 1 and \
                srng.chance(.4):
            s['placement'] = dict(pl, bare=True)   # keys 'A1', 'RATE'
    else:
        s.update(mode=srng.pick(['loads', 'loads', 'root']),
                 book_order=srng.perm(len(world['books'])),
                 sheet_orders={}, exec_seed=None,
                 compact=srng.pick([1, 1, 2, 1000]))
    orng = Rng(seed, 'ops')
    ops = [gen_op(orng, world, kind == 'file')
           for _ in range(orng.randrange(0, t['max_ops'] + 1))]
    observed = {'op': 'calc',
                'inputs': gen_inputs(orng, world, orng.randrange(0, 4),
                                     blanks=orng.chance(.3)),
                'outputs': gen_targets(orng, world, orng.randrange(1, 4),
                                       False) if orng.chance(.3) else None}
    if cover and breakers is None and orng.chance(.6):
        # the rectangle around an array block is overridden by the observed
        # calculation (and, through the re-use below, by earlier ones with
        # other values): the block is one multi-cell node behind the range
        pos = set(rect_cells(cover))
        keep = []
        for tg, v in observed['inputs']:
            if tg[0] == 'cell':
                tp = set(cell_positions(world['cells'][tg[1]]))
            elif tg[0] == 'blank':
                tp = {tuple(tg[1])}
            else:
                tp = set(rect_cells(world['names'][tg[1]]['t']
                                    if tg[0] == 'name' else tg[1]))
            if not (tp & pos):
                keep.append([tg, v])
        tg = ['range', cover]
        observed['inputs'] = keep + [[tg, regen_value(orng, world, tg)]]
        if not ops or not any(op['op'] in ('calc', 'calc_fault')
                              for op in ops):
            ops.append({'op': 'calc', 'inputs': [], 'outputs': None})
    if breakers:
        # circular world: the observed calculation overrides (at least) one
        # cell of every cycle - as constants those cells leave no cycle
        have = {tuple(tg) for tg, _ in observed['inputs']
                if tg[0] == 'cell'}
        for i in breakers:
            if ('cell', i) not in have:
                tg = ['cell', i]
                observed['inputs'].append(
                    [tg, regen_value(orng, world, tg)])
    # the same targets overridden again with OTHER values: half of the
    # earlier calculations re-use the targets of the observed one (a stale
    # value left by the earlier override must not survive)
    for op in ops:
        if op['op'] in ('calc', 'calc_fault') and observed['inputs'] and \
                orng.chance(.5):
            op['inputs'] = [[copy.deepcopy(tg), regen_value(orng, world, tg)]
                            for tg, _ in observed['inputs']]
    return {'prop': ID, 'seed': seed, 'tier': tier, 'world': world,
            'schedule': s, 'ops': ops, 'observed': observed,
            'reuse_containers': Rng(seed, 'reuse').chance(.5)}


# ------------------------------------------------------------------- execute
def to_lib(v, top=True):
    """Trace value -> library value."""
    from formulas.tokens.operand import Error
    if isinstance(v, dict) and 'nd' in v:
        import numpy as np
        return np.array(v['v'], dtype=v['nd'])
    if isinstance(v, dict) and 'blank' in v:
        import schedula as sh
        # (a bare sh.EMPTY is schedula's "no value" and is refused as an
        # input; a blank cell is the 1x1 array holding it)
        return [[sh.EMPTY]] if top else sh.EMPTY
    if isinstance(v, dict):
        return Error.errors[v['e']]
    if isinstance(v, list):
        return [[to_lib(x, False) for x in row] for row in v]
    return v


def target_id(world, P, t):
    if t[0] == 'blank':
        return P.cell_id(*t[1])
    if t[0] == 'cell':
        return P.rect_id(*cell_rect(world['cells'][t[1]]))
    if t[0] == 'name':
        return P.name_id(world['names'][t[1]]['b'], t[1])
    if len(t) > 2:      # whole rows / columns
        return P.whole_id(['w'] + t[1][1:] + [t[2]])
    return P.rect_id(*t[1][1:])


def sheet_wide(P, t, val):
    """Value of a whole-row / whole-column target: the window part ``val``
    inside an otherwise blank strip."""
    import numpy as np
    import schedula as sh
    arr = np.empty((len(val), len(val[0])), object)
    for i, row in enumerate(val):
        for j, x in enumerate(row):
            arr[i, j] = x
    _, b, s, r1, c1, r2, c2 = t[1]
    row1, col1 = P.rc(b, s, r1, c1)
    if t[2] == 'row':
        big = np.empty((arr.shape[0], 16384), object)
        big[:] = sh.EMPTY
        big[:, col1 - 1:col1 - 1 + arr.shape[1]] = arr
    else:
        big = np.empty((1048576, arr.shape[1]), object)
        big[:] = sh.EMPTY
        big[row1 - 1:row1 - 1 + arr.shape[0], :] = arr
    return big


def lib_inputs(world, P, m, ins, pool=None):
    """``pool``: {node id: container} kept by the caller across the
    calculations of one history - a caller who updates his array IN PLACE and
    calculates again passes the very same list / ndarray object each time."""
    d, skipped = {}, 0
    for t, v in ins:
        key = target_id(world, P, t)
        if key not in m.dsp.nodes and t[0] != 'blank':
            skipped += 1   # never create nodes by spelling an id
            continue
        if pool is not None and not (t[0] == 'range' and len(t) > 2):
            new = to_lib(v)
            old = pool.get(key)
            if isinstance(new, list) and isinstance(old, list) and \
                    len(old) == len(new) and len(old[0]) == len(new[0]):
                for i, row in enumerate(new):
                    old[i][:] = row          # same rows, new contents
                d[key] = old
                continue
            if hasattr(new, 'dtype') and hasattr(old, 'dtype') and \
                    old.dtype == new.dtype and old.shape == new.shape:
                old[...] = new
                d[key] = old
                continue
            if isinstance(new, list) or hasattr(new, 'dtype'):
                pool[key] = new
            d[key] = new
            continue
        # (a blank cell inside a referenced rectangle, spelt canonically, is
        # the one exception: the library's range assembler looks such cells
        # up in the solution - `calculate(inputs={"...!B3": 1})` imposes a
        # value on an empty cell, as in the README)
        d[key] = to_lib(v)
        if t[0] == 'range' and len(t) > 2:
            val = d[key].tolist() if hasattr(d[key], 'tolist') else d[key]
            d[key] = sheet_wide(P, t, val if isinstance(val, list)
                                else [[val]])
    return d, skipped


def lib_outputs(world, P, m, outs):
    if outs is None:
        return None
    keys = [target_id(world, P, t) for t in outs]
    keys = [k for k in keys if k in m.dsp.nodes]
    return keys or None


def gen_circular(seed, t):
    """A world with circular references that no branch selection avoids
    (arithmetic and aggregates only), finished with circular=True, and the
    cells to override so that every cycle holds a constant."""
    from ..cyc import Graph
    rng, sw = Rng(seed, 'circ/world'), Rng(seed, 'circ/swarm')
    # a third of these worlds also has cycles through IF / IFERROR branches,
    # which the library cuts statically (see F-C07-9 in KNOWN_FINDINGS.txt)
    lazy = sw.chance(.35)
    prof = profile(
        win=t['win'], max_cells=t['max_cells'], min_cells=3,
        max_books=sw.pick([1, 1, 2]), max_sheets=sw.pick([1, 2]),
        p_arr=0, p_name=sw.pick([0, .15]), p_cross=.4, p_text=0, p_bool=0,
        p_err=0, p_frac=0, p_formula=.8, depth=sw.pick([1, 2, 2]),
        p_back=sw.pick([.25, .4, .6]),
        w_ref=5, w_num=1, w_op=4, w_aggr=sw.pick([0, 3]),
        w_if=sw.pick([3, 5]) if lazy else 0,
        w_iferror=sw.pick([0, 2]) if lazy else 0, w_iserror=0, w_name=1.5,
        w_ifs=0, w_ifna=0,
    )
    world = gen_world(rng, prof)
    if sw.chance(.7):
        add_ring(sw, world, sw.randrange(2, 5))
    G = Graph(world)
    left = [set(c) for c in G.cycles()]
    breakers = []
    while left:
        # the cell on most of the remaining cycles (ties: a seeded choice)
        count = {}
        for c in left:
            for i in c:
                count[i] = count.get(i, 0) + 1
        top = max(count.values())
        i = sw.pick(sorted(k for k, v in count.items() if v == top)) \
            if sw.chance(.5) else sw.pick(sorted(count))
        breakers.append(i)
        left = [c for c in left if i not in c]
    # a member of a cycle that is NOT overridden also reads a chain of
    # formulas outside the cycle: its value is settled late in the calculation
    on = sorted(G.on_cycle() - set(breakers))
    if on and sw.chance(.8):
        add_feeder_chain(sw, world, sw.pick(on), sw.randrange(2, 7))
    return world, sorted(breakers)


def add_ring(rng, world, k):
    """k cells in a new row, each reading the next and the last the first
    (random worlds mostly hold self-references), plus a reader of one."""
    idx = Index(world)
    b = rng.randrange(len(world['books']))
    s = rng.randrange(len(world['books'][b]))
    h, w = world['books'][b][s]
    covered = set(idx.occ)
    for x in world['cells']:
        if 'f' in x:
            for y in refs_of(x['f']):
                r = y if y[0] == 'r' else world['names'][y[1]]['t']
                covered.update(rect_cells(r))
    for n in world['names']:
        covered.update(rect_cells(n['t']))
    r0 = max([q[2] for q in covered if q[:2] == (b, s)] + [h - 1]) + 1
    for j in range(k):
        nxt = ['r', b, s, r0, (j + 1) % k, r0, (j + 1) % k]
        world['cells'].append({'at': [b, s, r0, j], 'f': [
            'op', rng.pick(['+', '+', '-', '*']), nxt,
            ['n', rng.randrange(1, 5)]]})
    m = rng.randrange(k)
    world['cells'].append({'at': [b, s, r0, k], 'f': [
        'op', '*', ['r', b, s, r0, m, r0, m], ['n', 2]]})
    world['books'][b][s] = [max(h, r0 + 1), max(w, k + 1)]


def add_feeder_chain(rng, world, i, depth):
    idx = Index(world)
    c = world['cells'][i]
    b, s = c['at'][0], c['at'][1]
    h, w = world['books'][b][s]
    covered = set(idx.occ)
    for x in world['cells']:
        if 'f' in x:
            for y in refs_of(x['f']):
                r = y if y[0] == 'r' else world['names'][y[1]]['t']
                covered.update(rect_cells(r))
    for n in world['names']:
        covered.update(rect_cells(n['t']))
    r0 = max([q[2] for q in covered if q[:2] == (b, s)] + [h - 1]) + 1
    world['cells'].append({'at': [b, s, r0, 0], 'v': rng.randrange(1, 9)})
    for k in range(1, depth + 1):
        world['cells'].append({'at': [b, s, r0, k], 'f': [
            'op', '+', ['r', b, s, r0, k - 1, r0, k - 1], ['n', 1]]})
    c['f'] = ['op', '+', c['f'], ['r', b, s, r0, depth, r0, depth]]
    world['books'][b][s] = [max(h, r0 + 1), max(w, depth + 1)]


def build(world, s, log=None):
    circ = bool(s.get('circular'))
    if s['kind'] == 'dict':
        return build_dict_model(world, s['placement'], s.get('order'), log=log,
                                circular=circ)
    m, disk = build_file_model(world, s['placement'], s, log=log,
                               circular=circ)
    disk.uninstall()
    return m


def apply_op(world, P, m, s, op, log, stats):
    k = op['op']
    f = fault()
    stats['ops'][k] = stats['ops'].get(k, 0) + 1
    if k in ('calc', 'calc_fault'):
        ins, _ = lib_inputs(world, P, m, op['inputs'], s.get('_pool'))
        outs = lib_outputs(world, P, m, op['outputs'])
        f.armed = k == 'calc_fault'
        before = f.fired
        try:
            kw = {'inputs': ins}
            if outs:
                kw['outputs'] = outs
            m.calculate(**kw)
            res = 'ok'
        except Exception as ex:
            res = type(ex).__name__
        finally:
            f.armed = False
        if f.fired > before:
            stats['faults_fired']['SIMFAULT'] = \
                stats['faults_fired'].get('SIMFAULT', 0) + f.fired - before
        log.add('client', k, inputs=sorted(ins), outputs=outs, res=res)
    elif k == 'compile':
        ins = [target_id(world, P, t) for t in op['inputs']]
        outs = [target_id(world, P, t) for t in op['outputs']]
        try:
            if all(i in m.dsp.nodes for i in ins + outs):
                fn = m.compile(ins, outs)
                fn(*[to_lib(a) for a in op['args']])
                res = 'ok'
            else:
                res = 'skipped'
        except Exception as ex:
            res = type(ex).__name__
        log.add('client', k, inputs=ins, outputs=outs, res=res)
    elif k == 'to_dict':
        d = m.to_dict()
        log.add('client', k, n=len(d))
    elif k == 'write_fresh':
        m.write()
        log.add('client', k)
    elif k == 'write_books':
        m.write(books=m.books)
        log.add('client', k)
    elif k == 'write_disk':
        import openpyxl
        d = os.path.join(WORK, 'w%d' % os.getpid())
        real = openpyxl.workbook.workbook.Workbook.save
        saved = []

        def save(self, filename):
            import io
            bio = io.BytesIO()
            real(self, bio)
            saved.append((os.path.basename(str(filename)), len(bio.getvalue())))

        openpyxl.workbook.workbook.Workbook.save = save
        try:
            m.write(dirpath=d)
            res = 'ok'
        except Exception as ex:
            res = type(ex).__name__
        finally:
            openpyxl.workbook.workbook.Workbook.save = real
            shutil.rmtree(d, ignore_errors=True)
        log.add('client', k, files=sorted(n for n, _ in saved), res=res)
    elif k == 'deepcopy':
        copy.deepcopy(m)
        log.add('client', k)
    elif k == 'finish':
        if s['kind'] == 'dict':
            m.finish(complete=False)
        else:
            disk = SimDisk().install()
            try:
                m.finish()
            finally:
                disk.uninstall()
            stats['reopen_on_refinish'] += len(disk.log)
        log.add('client', k)
    else:
        raise ValueError(k)


def pins_of(world, ins):
    """Overrides as (pinned_cells {i: norm}, pinned positions {pos: raw})."""
    idx = Index(world)
    cells, pos = {}, {}
    for t, v in ins:
        if t[0] == 'cell':
            c = world['cells'][t[1]]
            b, s, r1, c1, r2, c2 = cell_rect(c)
        elif t[0] == 'blank':
            b, s, r1, c1 = t[1]
            r2, c2 = r1, c1
        else:
            r = world['names'][t[1]]['t'] if t[0] == 'name' else t[1]
            b, s, r1, c1, r2, c2 = r[1:]
        val = to_lib(v)
        if hasattr(val, 'tolist'):       # typed numpy array
            val = val.tolist()
        if not isinstance(val, list):
            val = [[val]]
        for i in range(r1, r2 + 1):
            for j in range(c1, c2 + 1):
                pos[(b, s, i, j)] = val[i - r1][j - c1]
    for p, raw in pos.items():
        o = idx.occupant(p)
        if o is not None:
            c = world['cells'][o]
            h, w = c.get('arr') or (1, 1)
            grid = cells.setdefault(o, [[None] * w for _ in range(h)])
            grid[p[2] - c['at'][2]][p[3] - c['at'][3]] = norm_scalar(raw)
    # an array cell only partly covered cannot be pinned as a whole
    cells = {o: g for o, g in cells.items()
             if all(x is not None for row in g for x in row)}
    return cells, pos


def observe_calc(world, P, s, m, op, pool=None):
    ins, skipped = lib_inputs(world, P, m, op['inputs'], pool)
    outs = lib_outputs(world, P, m, op['outputs'])
    kw = {'inputs': ins}
    if outs:
        kw['outputs'] = outs
    sol = m.calculate(**kw)
    return Observation(world, s['placement'], sol), ins, outs, sol, skipped


def effective_inputs(world, P, m, ins):
    return [[t, v] for t, v in ins
            if t[0] == 'blank' or target_id(world, P, t) in m.dsp.nodes]


def unsettled_keys(world, ins):
    """Observables that read a BLANK position overridden in ``ins`` (names
    and formula cells over it, and everything downstream): what they see of
    the pushed value depends on the dispatch order (F-C07-4 territory), so an
    output restriction may legitimately change them."""
    from ..cyc import Graph
    idx = Index(world)
    bpos = set()
    for t, _ in ins:
        if t[0] == 'blank':
            bpos.add(tuple(t[1]))
        elif t[0] in ('name', 'range'):
            r = world['names'][t[1]]['t'] if t[0] == 'name' else t[1]
            bpos.update(p for p in rect_cells(r) if idx.occupant(p) is None)
    if not bpos:
        return set()
    out = set()
    for k, n in enumerate(world['names']):
        if bpos & set(rect_cells(n['t'])):
            out.add('n%d' % k)
    direct = set()
    for i, c in enumerate(world['cells']):
        if 'f' in c:
            for x in refs_of(c['f']):
                r = x if x[0] == 'r' else world['names'][x[1]]['t']
                if bpos & set(rect_cells(r)):
                    direct.add(i)
    G = Graph(world)
    for i in range(len(world['cells'])):
        if G.reach(i) & direct:
            out.add('c%d' % i)
    return out


def covers_blank(world, ins):
    idx = Index(world)
    for t, _ in ins:
        if t[0] == 'blank':
            return True
        if t[0] in ('name', 'range'):
            r = world['names'][t[1]]['t'] if t[0] == 'name' else t[1]
            if any(idx.occupant(p) is None for p in rect_cells(r)):
                return True
    return False


def execute(trace, env=None):
    world, s = trace['world'], dict(trace['schedule'])
    if trace.get('reuse_containers'):
        # the caller keeps ONE list / ndarray per overridden range or name
        # and updates it in place between the calculations on the model
        s['_pool'] = {}
    P = Placement(s['placement'])
    log = EventLog()
    fault()
    stats = {'ops': {}, 'faults_fired': {}, 'reopen_on_refinish': 0,
             'observed': 0, 'fresh_compared': 0, 'exact_checked': 0,
             'alias_compared': 0, 'outputs_compared': 0}
    viol = []

    def fail(clause, detail, **kw):
        v = {'clause': clause, 'detail': detail}
        v.update(kw)
        viol.append(v)

    # The reference (a fresh model given the observed inputs) is computed
    # FIRST, before the long-lived model exists and before any operation of
    # the history has run, so that state shared at module level (caches,
    # memoised buffers) cannot pollute reference and subject alike.
    obs_op = trace['observed']
    pre = None
    fresh_loaded = None
    try:
        fresh = build(world, s)
        pre = observe_calc(world, P, s, fresh, obs_op)
        fresh_loaded = [i for i, c in enumerate(world['cells'])
                        if P.rect_id(*cell_rect(c)) in fresh.cells]
        del fresh
    except Exception:
        pre = None
    try:
        m = build(world, s, log)
    except Exception as ex:
        import traceback
        fail('C07.load', 'load raised %r' % ex,
             tb=traceback.format_exc()[-1500:])
        return result(trace, viol, log, stats, False)
    for op in trace['ops']:
        try:
            apply_op(world, P, m, s, op, log, stats)
        except Exception as ex:
            # What an operation of the history itself returns or raises is not
            # C07's business (write -> C16, compile -> C08): it is recorded
            # and the history goes on; only the observed calculation is judged.
            stats['history_ops_raised'] = stats.get(
                'history_ops_raised', 0) + 1
            log.add('client', op['op'] + '-raised', err=type(ex).__name__)
    try:
        obs, ins, outs, sol, skipped = observe_calc(world, P, s, m, obs_op,
                                                    s.get('_pool'))
    except Exception as ex:
        import traceback
        fail('C07.fresh', 'observed calculation raised %r' % ex,
             tb=traceback.format_exc()[-1500:])
        return result(trace, viol, log, stats, False)
    stats['observed'] += 1
    log.add('client', 'observed-calc', inputs=sorted(ins), outputs=outs)
    # a model grown from the root book holds what the root references
    # (model.cells says which cells those are); the others are not observed
    present = None
    if s['kind'] == 'file' and s.get('mode') == 'root':
        # (finishing again may pull in further cells of lazily loaded books;
        # only cells that the fresh model holds as well are compared - and
        # none of those may have been lost)
        present = [i for i, c in enumerate(world['cells'])
                   if P.rect_id(*cell_rect(c)) in m.cells]
        for i in fresh_loaded or []:
            if i not in present:
                fail('C07.fresh', 'cell %d is loaded in a fresh model but '
                     'gone after the history' % i, cell=i)
        present = [i for i in present if i in (fresh_loaded or [])]
        obs = Observation(world, s['placement'], sol, list(m.cells))
    got = obs.normal()
    # --- C07.fresh: same inputs on a fresh model of the same world
    if pre is None:
        fail('C07.fresh', 'a fresh model cannot do the observed calculation')
        return result(trace, viol, log, stats, False)
    fobs, fins, fouts, fsol, _ = pre
    want = fobs.normal()
    stats['fresh_compared'] += 1
    idx0 = Index(world)

    def name_ok(key):
        # names whose target holds cells that only one of the models loaded
        # (satellite books pulled in lazily) are not observed
        t = world['names'][int(key[1:])]['t']
        occ = [idx0.occupant(p) for p in rect_cells(t)]
        return all(o is None or o in present for o in occ)

    for key in sorted(want):
        if present is not None and key[0] == 'c' and \
                int(key[1:]) not in present:
            continue
        if present is not None and key[0] == 'n' and not name_ok(key):
            continue
        # (a calculation restricted to outputs returns what those outputs
        # need; which requested outputs EXIST may differ between a fresh
        # root-book model and one that was finished again - a value that
        # one side simply did not return is not a difference)
        if (outs and got[key] == MISSING) or (fouts and
                                              want[key] == MISSING):
            continue
        if got[key] != want[key]:
            fail('C07.fresh', '%s = %s after the history but %s on a fresh '
                 'model with the same inputs' % (key, got[key], want[key]),
                 cell=key)
            break
    # requested ranges are observed too
    for t, _ in obs_op['inputs']:
        pass
    # --- unrestricted calculation on a second fresh model (reference)
    full = fobs
    if outs:
        fresh2 = build(world, s)
        op2 = dict(obs_op)
        op2['outputs'] = None
        full, _, _, _, _ = observe_calc(world, P, s, fresh2, op2)
        fulln = full.normal()
        stats['outputs_compared'] += 1
        skip = unsettled_keys(world, obs_op['inputs'])
        for key in sorted(got):
            if key in skip:
                continue
            if present is not None and key[0] == 'c' and \
                    int(key[1:]) not in present:
                continue
            if present is not None and key[0] == 'n' and not name_ok(key):
                continue
            if got[key] != MISSING and got[key] != fulln[key]:
                fail('C07.outputs', '%s = %s with outputs=%s but %s without '
                     'the restriction' % (key, got[key], outs, fulln[key]),
                     cell=key)
                break
        for k in outs:
            if k not in sol:
                fail('C07.outputs', 'requested output %s is not in the '
                     'returned solution' % k)
                break
    # --- C07.exact: fixed point with the overridden cells pinned
    eff = effective_inputs(world, P, m, obs_op['inputs'])
    pinned_cells, pinned_pos = pins_of(world, eff)
    fp = FixedPoint(world, s['placement'])
    blanky = covers_blank(world, eff)
    if blanky:
        stats['observed_with_blank_override'] = stats.get(
            'observed_with_blank_override', 0) + 1
    acyclic = True
    if s.get('circular'):
        # the fixed point is the oracle only if the overridden cells, taken
        # as constants, leave no cycle (a shrunk trace may have lost them)
        from ..cyc import Graph
        acyclic = all(set(cy) & set(pinned_cells)
                      for cy in Graph(world).cycles())
        stats['circular_observed'] = stats.get('circular_observed', 0) + 1
    if not outs and acyclic:
        # dependents are judged on the *observed* values of the overridden
        # cells and the overridden cells themselves against the supplied
        # values.  When the override also covers BLANK positions, formulas
        # that read one of those positions are left out (what they see of a
        # value pushed onto an unpopulated cell is not settled), everything
        # else is still checked - in particular the populated members.
        only = present
        if blanky:
            idx1 = Index(world)
            bpos = {p for p in pinned_pos if idx1.occupant(p) is None}
            only = []
            for i, c in enumerate(world['cells']):
                if present is not None and i not in present:
                    continue
                if 'f' in c:
                    hit = False
                    for x in refs_of(c['f']):
                        r = x if x[0] == 'r' else world['names'][x[1]]['t']
                        if bpos & set(rect_cells(r)):
                            hit = True
                    if hit:
                        continue
                only.append(i)
        bad, st = fp.check(obs, pinned_cells=pinned_cells, only=only)
        stats['exact_checked'] += st['formula_checked']
        if st['oracle_errors']:
            stats.setdefault('oracle_errors', []).extend(
                st['oracle_errors'][:2])
        for i, what, exp, g in bad:
            fail('C07.exact', '%s: cell %d expected %s got %s (inputs %s)' % (
                what, i, exp, g, sorted(ins)), cell=i)
    # --- C07.alias: name / range override == overriding the underlying cells
    al = alias_inputs(world, eff)
    if al is not None and not outs and not blanky:
        fresh3 = build(world, s)
        op3 = {'op': 'calc', 'inputs': al, 'outputs': None}
        aobs, _, _, _, sk = observe_calc(world, P, s, fresh3, op3)
        if not sk:
            stats['alias_compared'] += 1
            an = aobs.normal(names=False)
            gn = obs.normal(names=False)
            diff = [key for key in sorted(an)
                    if (present is None or int(key[1:]) in present) and
                    an[key] != gn[key]]
            if diff:
                key = diff[0]
                fail('C07.alias', '%s = %s when the value is supplied '
                     'through the name/range but %s when supplied to the '
                     'underlying cells (cells that differ: %s)' % (
                         key, gn[key], an[key], diff),
                     cells=[int(k[1:]) for k in diff])
    # --- non-trivial rule
    prev_sets = [sorted(target_id(world, P, t) for t, _ in op.get(
        'inputs', [])) for op in trace['ops']
        if op['op'] in ('calc', 'calc_fault')]
    mine = sorted(ins)
    base = build(world, s)
    bobs = Observation(world, s['placement'], base.calculate()).normal(False)
    gn = full.normal(names=False)
    changed = [k for k in gn if gn[k] != bobs[k] and
               int(k[1:]) not in pinned_cells and
               'f' in world['cells'][int(k[1:])]]
    nontrivial = bool(changed) and any(p != mine for p in prev_sets + (
        [[]] if trace['ops'] else []))
    return result(trace, viol, log, stats, nontrivial, digest(got))


def alias_inputs(world, ins):
    """Rewrite name / range overrides as overrides of the underlying cells;
    None when not applicable (no alias, or a member is unpopulated / part of
    an array-formula cell)."""
    idx = Index(world)
    out, any_alias = [], False
    for t, v in ins:
        if t[0] in ('cell', 'blank'):
            out.append([t, v])
            continue
        any_alias = True
        r = world['names'][t[1]]['t'] if t[0] == 'name' else t[1]
        if isinstance(v, dict) and 'nd' in v:
            v = v['v']      # the same values, cell by cell, as Python scalars
        val = v if isinstance(v, list) else [[v]]
        for p in rect_cells(r):
            o = idx.occupant(p)
            if o is None or 'arr' in world['cells'][o]:
                return None
            out.append([['cell', o], val[p[2] - r[3]][p[3] - r[4]]])
    return out if any_alias else None


def covered_formula_cells(world, ins):
    """Formula cells covered by a name / range override."""
    idx = Index(world)
    out = set()
    for t, _ in ins:
        if t[0] in ('cell', 'blank'):
            continue
        r = world['names'][t[1]]['t'] if t[0] == 'name' else t[1]
        for p in rect_cells(r):
            o = idx.occupant(p)
            if o is not None and 'f' in world['cells'][o]:
                out.add(o)
    return out


def signature(trace, v):
    """F-C07-2: a formula cell overridden *through a name or a multi-cell
    range* is re-evaluated (its own formula races the inverse distribution of
    the range value)."""
    if v['clause'] == 'C07.fresh' and 'PYTHONHASHSEED' in v['detail']:
        # F-C07-4: blank cells overridden THROUGH a name / range
        idx = Index(trace['world'])
        for t, _ in trace['observed']['inputs']:
            if t[0] in ('name', 'range'):
                r = trace['world']['names'][t[1]]['t'] if t[0] == 'name' \
                    else t[1]
                if any(idx.occupant(p) is None for p in rect_cells(r)):
                    return 'C07.fresh/blank-cells-overridden-through-range-' \
                        'hashseed'
        return None
    if stale_solution_written(trace) and v['clause'] in (
            'C07.fresh', 'C07.exact', 'C07.outputs', 'C07.alias'):
        return 'C07.fresh/write-loaded-books-after-compile-then-refinish'
    if v['clause'] not in ('C07.exact', 'C07.alias'):
        return None
    from ..cyc import Graph
    world = trace['world']
    sig6 = chained_name_value_signature(trace, v)
    if sig6:
        return sig6
    if trace['schedule'].get('circular') and v['clause'] == 'C07.exact' and \
            isinstance(v.get('cell'), int):
        # F-C07-9: the cell (or a cell it depends on) reads a cell of one of
        # its cycles inside an IF / IFERROR branch - that edge may have been
        # cut for good when the model was finished
        G = Graph(world)
        cut = set()
        for cyc in G.cycles():
            for u, w_ in G.cycle_edges(cyc):
                if any(o['conds'] for o in G.edge[u][w_]):
                    cut.add(u)
        if G.reach(v['cell']) & cut:
            return 'C07.exact/static-cut-of-a-branch-on-a-cycle'
    cov = covered_formula_cells(world, trace['observed']['inputs'])
    if not cov:
        return None
    cells = v.get('cells')
    if cells is None:
        cells = [v['cell']] if isinstance(v.get('cell'), int) else None
    if not cells:
        return None
    G = Graph(world)
    if v['clause'] == 'C07.exact':
        # the overridden formula cell itself, or a direct consumer of the
        # overridden range node (which holds the supplied value while the
        # cell holds the re-evaluated one)
        ok = all(c in cov or (set(G.dep[c]) & cov) for c in cells)
    else:
        ok = all(c in cov or (G.reach(c) & cov) for c in cells)
    return 'C07.exact/formula-cell-overridden-through-range' if ok else None


def chained_name_value_signature(trace, v):
    """F-C07-6: a CHAINED defined name (NAME_F := NAME_E := A5:A7) carries no
    range filter, so a value supplied through it stays a plain array: an
    aggregate that reads the name directly treats logicals / text in it as
    directly typed arguments (TRUE counts as 1) instead of as cell contents."""
    from ..cyc import Graph
    world = trace['world']

    def odd(val):
        if isinstance(val, dict) and 'nd' in val:
            return odd(val['v'])
        if isinstance(val, list):
            return any(odd(x) for x in val)
        return isinstance(val, (bool, str))
    names = [t[1] for t, val in trace['observed']['inputs']
             if t[0] == 'name' and odd(val) and
             world['names'][t[1]].get('alias') is not None]
    if not names:
        return None
    users = set()
    for i, c in enumerate(world['cells']):
        if 'f' in c and any(x[0] == 'nm' and x[1] in names
                            for x in walk(c['f'])):
            users.add(i)
    cells = v.get('cells')
    if cells is None:
        cells = [v['cell']] if isinstance(v.get('cell'), int) else []
    if not cells or not users:
        return None
    G = Graph(world)
    if all(G.reach(c) & users for c in cells):
        return 'C07.exact/logical-through-chained-name'
    return None


def stale_solution_written(trace):
    """F-C07-3: write(books=model.books) stores the last solution (overridden
    inputs of blank cells, or the placeholders compile() leaves behind) in the
    loaded workbooks, and a later finish() re-reads cells that were blank
    from them."""
    state = 0
    for op in trace['ops']:
        k = op['op']
        if k == 'write_books':
            state = 1
        elif k == 'finish' and state == 1:
            return True
    return False


def result(trace, viol, log, stats, nontrivial, outcome='none'):
    return {'violations': viol, 'outcome': outcome, 'events': log.digest(),
            'stats': stats, 'nontrivial': nontrivial,
            'case_key': digest([trace['world'], trace['schedule'],
                                trace['ops'], trace['observed']])}


def cross(trace, results):
    hs = sorted(results)
    for h in hs[1:]:
        if results[h]['outcome'] != results[hs[0]]['outcome']:
            return [{'clause': 'C07.fresh',
                     'detail': 'observed outcome differs between '
                               'PYTHONHASHSEED=%s and %s' % (hs[0], h)}]
    return []


def sample(trace):
    P = Placement(trace['schedule']['placement'])
    w = trace['world']

    def show(op):
        d = {'op': op['op']}
        if 'inputs' in op and op['op'] != 'compile':
            d['inputs'] = {target_id(w, P, t): v for t, v in op['inputs']}
        if op.get('outputs'):
            d['outputs'] = [target_id(w, P, t) for t in op['outputs']]
        return d

    return {'workbook': dict(dict_items(w, trace['schedule']['placement'])),
            'load': {k: v for k, v in trace['schedule'].items()
                     if k != 'placement'},
            'history': [show(op) for op in trace['ops']],
            'observed': show(trace['observed'])}


def _fix_targets(op, w, meta, dropped_cell=None):
    """Drop overrides / outputs that refer to cells removed by a shrink."""
    def ok(t):
        if t[0] == 'blank':
            return Index(w).occupant(tuple(t[1])) is None
        if t[0] == 'cell':
            return t[1] < len(w['cells'])
        if t[0] == 'name':
            return t[1] < len(w['names'])
        return True
    op = copy.deepcopy(op)
    if 'inputs' in op:
        if op['op'] == 'compile':
            keep = [k for k, t in enumerate(op['inputs']) if ok(t)]
            op['inputs'] = [op['inputs'][k] for k in keep]
            op['args'] = [op['args'][k] for k in keep]
        else:
            op['inputs'] = [x for x in op['inputs'] if ok(x[0])]
    if op.get('outputs'):
        op['outputs'] = [t for t in op['outputs'] if ok(t)] or None
    return op


def shrink_candidates(trace):
    ops = trace['ops']
    for k in reversed(range(len(ops))):
        t = copy.deepcopy(trace)
        del t['ops'][k]
        yield 'drop op %d (%s)' % (k, ops[k]['op']), t
    for k, op in enumerate(ops + [trace['observed']]):
        for j in reversed(range(len(op.get('inputs') or []))):
            t = copy.deepcopy(trace)
            tgt = t['ops'][k] if k < len(ops) else t['observed']
            del tgt['inputs'][j]
            if tgt['op'] == 'compile':
                del tgt['args'][j]
            yield 'op %d: drop input %d' % (k, j), t
        if op.get('outputs'):
            t = copy.deepcopy(trace)
            tgt = t['ops'][k] if k < len(ops) else t['observed']
            tgt['outputs'] = None
            yield 'op %d: no output restriction' % k, t
    # only the LAST cell can be dropped without renumbering the targets
    world = trace['world']
    for desc, w, meta in shrinkers.world_candidates(world):
        if desc.startswith('drop cell') or desc.startswith('drop cells'):
            if desc != 'drop cell %d' % (len(world['cells']) - 1):
                continue
        if 'dropped_name' in meta and \
                meta['dropped_name'] != len(world['names']) - 1:
            continue
        t = copy.deepcopy(trace)
        t['world'] = w
        t['schedule']['placement'] = shrinkers.fix_placement(
            t['schedule']['placement'], meta)
        n_items = len(w['cells']) + len(w['names'])
        if 'order' in t['schedule']:
            o = [x for x in t['schedule']['order'] if x < n_items]
            t['schedule']['order'] = o + [x for x in range(n_items)
                                          if x not in o]
        t['ops'] = [_fix_targets(op, w, meta) for op in t['ops']]
        t['observed'] = _fix_targets(t['observed'], w, meta)
        yield desc, t
    s = trace['schedule']
    for desc, p in shrinkers.placement_candidates(world, s['placement']):
        t = copy.deepcopy(trace)
        t['schedule']['placement'] = p
        yield desc, t
    if s['kind'] == 'file':
        for key, val in (('mode', 'loads'), ('compact', 1)):
            if s.get(key) != val:
                t = copy.deepcopy(trace)
                t['schedule'][key] = val
                yield '%s := %r' % (key, val), t
    else:
        ident = list(range(len(world['cells']) + len(world['names'])))
        if s.get('order') != ident:
            t = copy.deepcopy(trace)
            t['schedule']['order'] = ident
            yield 'identity order', t
