"""C03 - a calculated workbook is a consistent fixed point, whatever the order.

Schedule space: load path (dictionary / files via loads / root book + lazy
completion / per-book loader actors interleaved / dictionary re-imported from
a file model's export), item / book / sheet order, compile-future completion
order, assemble(compact), recalculations, placements, hash seeds (the latter
by the parent: the same trace runs in >= 2 worker interpreters).
"""
import copy

from ..rng import Rng, digest
from ..world import (gen_world, gen_placement, identity_placement, profile,
                     dict_items)
from ..expr import refs_of, rect_cells
from ..world import Index
from ..oracle import Observation, FixedPoint
from ..harness import (EventLog, build_dict_model, build_file_model,
                       structure_digest)
from ..values import MISSING
from .. import shrinkers
from ..refcalc import RefCalc

ID = 'C03'
LEVEL = 'exploration'
RULE = ('One run = one abstract acyclic workbook (1-3 books x 1-3 sheets, <=14 '
        'cells, constants / formulas / array formulas / defined names / '
        'cross-sheet and cross-book references, reference unions / '
        'intersections, real externalLink parts, names of other workbooks, '
        'whole rows in ~6 % of the runs, whole columns in ~0.3 % of the '
        'thorough runs) executed along 4-6 seeded '
        'schedules (dictionary with shuffled item order | files via loads in a '
        'shuffled book+sheet order | root book with lazy completion | per-book '
        'loader actors interleaved | re-import of a file model\'s export; '
        'compile futures completed in a seeded order; assemble(compact) knob; '
        '1-3 recalculations; random placement = translation + renaming) in 2 '
        '(quick) / 4 (thorough) interpreters with different PYTHONHASHSEED. '
        'Non-trivial: the world has a partly populated range reference or a '
        'cross-sheet / cross-book / name reference and >= 2 schedules ran; '
        'distinct = distinct (world, schedule vector) digest.')
ASSUMPTIONS = [
    'formula semantics are trusted: the fixed-point oracle evaluates each '
    'cell\'s own formula with the library\'s stand-alone formula compiler on '
    'harness-built inputs; RefCalc is an independent second opinion on its '
    'vocabulary only',
    'sampling, not enumeration',
]
TIERS = {
    'quick': dict(win=4, max_cells=10, n_sched=4, max_books=2, max_sheets=2),
    'thorough': dict(win=6, max_cells=14, n_sched=6, max_books=3,
                     max_sheets=3),
}


def generate(seed, tier):
    t = TIERS[tier]
    rng = Rng(seed, 'world')
    swarm = Rng(seed, 'swarm')
    prof = profile(
        win=t['win'], max_cells=t['max_cells'], max_books=t['max_books'],
        max_sheets=t['max_sheets'],
        p_arr=swarm.pick([0, .1, .2]), p_name=swarm.pick([0, .15, .3]),
        p_cross=swarm.pick([0, .3, .6]), p_text=swarm.pick([0, .08]),
        p_bool=swarm.pick([0, .06]), p_err=swarm.pick([0, .06]), p_alias=.25, p_arrlit=.06, p_refop=swarm.pick([0, .12]),
        w_if=swarm.pick([0, 2]), w_iferror=swarm.pick([0, 1]),
        w_istype=swarm.pick([0, .7]), w_engfn=swarm.pick([0, 0, 1]),
        p_xname=swarm.pick([0, .3]),
        depth=swarm.pick([1, 2, 3]),
    )
    world = gen_world(rng, prof)
    if swarm.chance(.35):
        from ..world import add_satellite_name_chain
        add_satellite_name_chain(Rng(seed, 'satname'), world)
    if swarm.chance(.3):
        from ..world import add_satellite_block
        add_satellite_block(Rng(seed, 'satblock'), world)
    heavy = False
    if swarm.chance(.06):
        # whole rows (cheap) and, rarely, whole columns (a million cells each:
        # seconds per model, so two schedules only) - last motif, it records
        # the window
        from ..world import add_whole_refs
        wr = Rng(seed, 'whole')
        # (whole columns cost 10-20 s a run: thorough tier only)
        heavy = tier != 'quick' and wr.chance(.05)
        add_whole_refs(wr, world, cols=heavy)
    srng = Rng(seed, 'sched')
    scheds = []
    n_items = len(world['cells']) + len(world['names'])
    nb = len(world['books'])
    for k in range(2 if heavy else t['n_sched']):
        pr = Rng(seed, 'place/%d' % k)
        pl = identity_placement(world) if k == 0 else \
            gen_placement(pr, world)
        kind = srng.weighted([('dict', 3), ('file', 2)]) if k else 'dict'
        s = {'kind': kind, 'placement': pl,
             'compact': srng.pick([1, 1, 2, 5, 1000]),
             'recalc': srng.pick([1, 1, 2, 3])}
        if heavy:
            s['recalc'] = 1
        if kind == 'dict':
            s['order'] = srng.perm(n_items) if k else list(range(n_items))
            if k and nb == 1 and len(world['books'][0]) == 1 and \
                    srng.chance(.5):
                # the one-sheet dictionary of the README: 'A1', 'RATE'
                s['placement'] = dict(pl, bare=True)
        else:
            s['mode'] = srng.weighted([('loads', 3), ('root', 2),
                                       ('actors', 2), ('todict', 1)])
            s['book_order'] = srng.perm(nb)
            s['sheet_orders'] = {str(b): srng.perm(len(bk))
                                 for b, bk in enumerate(world['books'])}
            s['exec_seed'] = srng.randrange(1 << 30) if srng.chance(.5) \
                else None
            s['inter_seed'] = srng.randrange(1 << 30)
            # real externalLink parts ([1]Sheet!A1); not with the re-import
            # path: to_dict() exports such formulas with their numeric link
            # id, which from_dict() cannot resolve - C09's business
            s['extlinks'] = srng.chance(.3) and s['mode'] != 'todict'
        scheds.append(s)
    return {'prop': ID, 'seed': seed, 'tier': tier, 'world': world,
            'schedules': scheds}


def nontrivial(world):
    idx = Index(world)
    for c in world['cells']:
        if 'f' not in c:
            continue
        for x in refs_of(c['f']):
            if x[0] == 'nm':
                return True
            if (x[1], x[2]) != (c['at'][0], c['at'][1]):
                return True
            cells = rect_cells(x)
            if len(cells) > 1:
                n = sum(1 for q in cells if idx.occupant(q) is not None)
                if 0 < n < len(cells):
                    return True
    return False


def run_schedule(world, s, log):
    """-> (Observation list (one per calculation), model, info)"""
    pl = s['placement']
    info = {}
    if s['kind'] == 'dict':
        m = build_dict_model(world, pl, s.get('order'), s.get('compact', 1),
                             log=log)
    else:
        mode = s.get('mode', 'loads')
        sch = dict(s)
        if mode == 'todict':
            sch['mode'] = 'loads'
        m, disk = build_file_model(world, pl, sch, log=log)
        info['opens'] = len(disk.log)
        disk.uninstall()
        if mode == 'todict':
            from formulas import ExcelModel
            d = m.to_dict()
            log.add('loader', 'to_dict->from_dict', n=len(d))
            m = ExcelModel().from_dict(d)
    obs = []
    # A model grown from the root book alone holds what the root transitively
    # references; which cells those are is what the model itself reports
    # (model.cells).  Phantom blank nodes that range assemblers create for
    # cells that were never loaded are not observations.
    loaded = list(m.cells) if s['kind'] == 'file' and \
        s.get('mode') == 'root' else None
    for k in range(s.get('recalc', 1)):
        log.add('client', 'calculate', k=k)
        sol = m.calculate()
        obs.append(Observation(world, pl, sol, loaded))
    info['structure'] = structure_digest(m)
    return obs, m, info


def execute(trace, env=None):
    world = trace['world']
    log = EventLog()
    viol, stats = [], {'schedules': 0, 'formula_checked': 0,
                       'const_checked': 0, 'refcalc_checked': 0,
                       'paths': {}, 'structures': []}
    outcomes = []
    ref = None
    try:
        rc = RefCalc(world)
        ref = rc.all_values() if rc.in_vocabulary() else None
    except Exception as ex:  # RefCalc is a second opinion only
        stats['refcalc_error'] = repr(ex)
    for k, s in enumerate(trace['schedules']):
        try:
            obs_list, m, info = run_schedule(world, s, log)
        except Exception as ex:
            import traceback
            viol.append({'clause': 'C03.load', 'sched': k,
                         'detail': 'schedule %d raised %r' % (k, ex),
                         'tb': traceback.format_exc()[-1500:]})
            continue
        stats['schedules'] += 1
        path = s['kind'] + ':' + s.get('mode', '')
        stats['paths'][path] = stats['paths'].get(path, 0) + 1
        stats['structures'].append(info['structure'])
        fp = FixedPoint(world, s['placement'])
        root_only = s['kind'] == 'file' and s.get('mode') == 'root'
        for j, obs in enumerate(obs_list):
            normal = obs.normal(names=False)
            present = None
            if root_only:
                rb = s['book_order'][0] if s.get('book_order') else 0
                present = [i for i, c in enumerate(world['cells'])
                           if normal['c%d' % i] != MISSING]
                idx = Index(world)
                for i, c in enumerate(world['cells']):
                    if c['at'][0] == rb and i not in present:
                        viol.append({
                            'clause': 'C03.fixpoint', 'sched': k, 'cell': i,
                            'detail': 'root-book cell %d has no value' % i})
                    if i in present and 'f' in c:
                        for x in refs_of(c['f']):
                            if x[0] == 'nm':
                                x = world['names'][x[1]]['t']
                            for q in rect_cells(x):
                                o = idx.occupant(q)
                                if o is not None and o not in present:
                                    viol.append({
                                        'clause': 'C03.fixpoint', 'sched': k,
                                        'cell': i, 'detail':
                                        'cell %d is loaded but cell %d which '
                                        'it references is not' % (i, o)})
            bad, st = fp.check(obs, only=present)
            stats['formula_checked'] += st['formula_checked']
            stats['const_checked'] += st['const_checked']
            if st['oracle_errors']:
                stats.setdefault('oracle_errors', []).extend(
                    st['oracle_errors'][:3])
            for i, what, exp, got in bad:
                clause = 'C03.const' if what == 'const' else 'C03.fixpoint'
                viol.append({
                    'clause': clause, 'sched': k, 'calc': j, 'cell': i,
                    'detail': '%s: cell %d expected %s got %s' % (
                        what, i, exp, got)})
            if ref is not None:
                for i in (present if present is not None
                          else range(len(world['cells']))):
                    stats['refcalc_checked'] += 1
                    if not rc.agrees(ref[i], normal['c%d' % i]):
                        viol.append({
                            'clause': 'C03.ref', 'sched': k, 'calc': j,
                            'cell': i,
                            'detail': 'RefCalc: cell %d expected %s got %s' % (
                                i, ref[i], normal['c%d' % i])})
            outcomes.append((k, j, root_only, normal))
    # C03.order inside this interpreter: every schedule, every recalculation
    full = [o for o in outcomes if not o[2]]
    base = full[0] if full else None
    for k, j, root_only, normal in outcomes:
        if base is None or (k, j) == (base[0], base[1]):
            continue
        for key in sorted(normal):
            if root_only and normal[key] == MISSING:
                continue
            if normal[key] != base[3][key]:
                viol.append({
                    'clause': 'C03.order', 'sched': k, 'calc': j,
                    'cell': key,
                    'detail': 'schedule %d/calc %d: %s = %s but schedule %d '
                              'gives %s' % (k, j, key, normal[key], base[0],
                                            base[3][key])})
                break
    outcome = digest(base[3]) if base else 'none'
    stats['distinct_structures'] = len(set(stats.pop('structures')))
    return {
        'violations': viol, 'outcome': outcome, 'events': log.digest(),
        'stats': stats, 'nontrivial': nontrivial(world) and
        stats['schedules'] >= 2,
        'case_key': digest([world, [
            {k: v for k, v in s.items()} for s in trace['schedules']]]),
    }


def cross(trace, results):
    """Parent side: compare outcomes of the same trace under several hash
    seeds.  results: {hashseed: result}."""
    hs = sorted(results)
    out = []
    for h in hs[1:]:
        if results[h]['outcome'] != results[hs[0]]['outcome']:
            out.append({'clause': 'C03.order',
                        'detail': 'outcome differs between PYTHONHASHSEED=%s '
                                  'and %s' % (hs[0], h)})
            break
    return out


def shrink_candidates(trace):
    world = trace['world']
    scheds = trace['schedules']
    # fewer schedules first
    if len(scheds) > 1:
        for k in reversed(range(len(scheds))):
            t = copy.deepcopy(trace)
            del t['schedules'][k]
            yield 'drop schedule %d' % k, t
    for desc, w, meta in shrinkers.world_candidates(world):
        t = copy.deepcopy(trace)
        t['world'] = w
        n_items = len(w['cells']) + len(w['names'])
        for s in t['schedules']:
            s['placement'] = shrinkers.fix_placement(s['placement'], meta)
            if 'order' in s:
                s['order'] = [x for x in s['order'] if x < n_items]
                for x in range(n_items):
                    if x not in s['order']:
                        s['order'].append(x)
        yield desc, t
    for k, s in enumerate(scheds):
        for desc, p in shrinkers.placement_candidates(world, s['placement']):
            t = copy.deepcopy(trace)
            t['schedules'][k]['placement'] = p
            yield 'schedule %d: %s' % (k, desc), t
        simple = {'compact': 1, 'recalc': 1, 'exec_seed': None}
        if s['kind'] == 'dict':
            simple['order'] = list(range(len(world['cells']) +
                                         len(world['names'])))
        else:
            simple['mode'] = 'loads'
            simple['book_order'] = list(range(len(world['books'])))
            simple['sheet_orders'] = {}
        for key, val in simple.items():
            if key in s and s[key] != val:
                t = copy.deepcopy(trace)
                t['schedules'][k][key] = val
                yield 'schedule %d: %s := %r' % (k, key, val), t


def sample(trace):
    items = dict_items(trace['world'], trace['schedules'][0]['placement'])
    return {'workbook': {k: v for k, v in items},
            'schedules': [{k: v for k, v in s.items() if k != 'placement'}
                          for s in trace['schedules']]}
