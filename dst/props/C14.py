"""C14 - unresolvable functions and references degrade locally (fault enumeration).

One run: a multi-book workbook whose root book is loaded explicitly and whose
satellites are pulled in lazily by finish(); a list of *fault points*
(unreadable / absent satellite file with a disk-fault kind, absent sheet,
undefined name, unknown function, _xlfn.-prefixed unknown function, #REF!
literal) and a list of subsets of them - every subset when there are few
points, a seeded sample otherwise.  Each subset is one faulted execution,
compared with the fault-free twin of the same world and schedule.
"""
import copy
import itertools

import numpy as np

from ..rng import Rng, digest
from ..world import (gen_world, gen_placement, identity_placement, profile,
                     dict_items, Index, cell_rect, cell_positions, xlsx_books)
from ..expr import Placement, refs_of, rect_cells, walk
from ..oracle import Observation, FixedPoint
from ..harness import EventLog, build_file_model
from ..values import MISSING
from ..seams import SimDisk, FAULT_KINDS
from ..cyc import Graph
from .. import shrinkers

ID = 'C14'
LEVEL = 'fault_enumeration'
RULE = ('One run = one workbook of 2-3 books (root + satellites, 1-2 sheets '
        'each, names, cross-book references) with 1-7 fault points: per '
        'satellite book one disk-fault kind of {ENOENT, EACCES, EIO at open, '
        'EIO mid-read, EISDIR, truncated, garbage, flipped byte, bad '
        'extension, file absent}, absent sheets, undefined names, unknown '
        'functions (plain / _xlfn.), #REF! literals (bare or '
        'sheet-qualified), spill references into absent sheets / books. '
        'Every subset of the '
        'fault points is executed when there are <= 4 (quick) / 6 (thorough) '
        'points, otherwise 8 / 24 seeded subsets; each execution = load root, '
        'finish (lazy completion meets the faults in work-list order), '
        'calculate, judged against the fault-free twin. A second '
        'configuration makes the disk faults transient (first 1-2 opens '
        'fail). evaluations = faulted executions; non-trivial execution: >= 1 '
        'fault fired (counted at the seam / in the realisation) and the world '
        'has >= 1 dependent and >= 1 independent formula cell; '
        'distinct_nontrivial counts distinct (world, fault vector) digests.')
ASSUMPTIONS = [
    'the root book is always readable (an unreadable explicitly loaded file '
    'raising is correct behaviour)',
    'formula semantics trusted (fixed-point oracle); which of #REF! / #NAME? '
    'an undefined name yields is left open, as in the statement',
    'fault subsets are enumerated completely only up to 4 (quick) / 6 '
    '(thorough) fault points per world',
]
TIERS = {
    'quick': dict(win=3, max_cells=9, enum=4, sample=8),
    'thorough': dict(win=4, max_cells=13, enum=6, sample=24),
}
DISK_KINDS = list(FAULT_KINDS) + ['ABSENT']
# (names of functions Excel has and this library has not, and names that end
# in / contain the name of a function it has)
UNKNOWN = ['NOSUCHFN', 'MYUDF2', '_xlfn.NEWFN', '_xlfn.XYZ.ABC',
           '_xlfn.XMATCH', '_xlfn.XLOOKUP', '_xlfn.LET', '_xlfn.XSUM',
           '_xlfn.NMAX', '_xlfn.LMIN', '_xlfn._xlws.SORTBY', 'XMATCH',
           'SUMX', 'MAX2']


# ------------------------------------------------------------------ generate
def generate(seed, tier):
    t = TIERS[tier]
    rng = Rng(seed, 'world')
    sw = Rng(seed, 'swarm')
    prof = profile(
        win=t['win'], max_cells=t['max_cells'], min_cells=4,
        max_books=3, max_sheets=2, p_arr=sw.pick([0, .08]),
        p_refop=sw.pick([0, 0, .1]), p_alias=.3,
        p_name=sw.pick([.1, .3]), p_cross=sw.pick([.5, .7]), p_text=0,
        p_bool=0, p_err=0, p_frac=.1, depth=sw.pick([1, 2]),
        w_if=sw.pick([0, 2]), w_iferror=sw.pick([1, 2.5]),
        w_iserror=sw.pick([.5, 1.5]), p_formula=.7,
    )
    world = gen_world(rng, prof)
    while len(world['books']) < 2:
        world['books'].append([[2, 2]])
    if sw.chance(.4):
        from ..world import add_satellite_name_chain
        add_satellite_name_chain(Rng(seed, 'satname'), world)
    fr = Rng(seed, 'faults')
    # cells that combine SEVERAL faultable items, each behind its own
    # interceptor (an item that resolves must not be lost because a sibling
    # does not, and vice versa)
    from ..world import Index
    must_names, must_undefined = set(), set()
    root_consts = [c for c in world['cells'] if c['at'][:2] == [0, 0] and
                   'arr' not in c]
    if sw.chance(.3) and len(root_consts) >= 2 and \
            len(world['names']) + 2 <= 8:
        # two names of the root book, both about to be undefined, used by ONE
        # formula, each behind its own interceptor
        from ..world import Index as _Ix
        ca, cb = fr.sample(root_consts, 2)
        ks = []
        for c in (ca, cb):
            world['names'].append({'b': 0, 'avail': 0, 't': [
                'r'] + c['at'] + c['at'][2:]})
            ks.append(len(world['names']) - 1)
        must_names.update(ks)
        must_undefined.update(ks)
        ix = _Ix(world)
        h0, w0 = world['books'][0][0]
        cov_ = set()     # (a referenced position would close a cycle)
        for c in world['cells']:
            if 'f' in c:
                for x in refs_of(c['f']):
                    cov_.update(rect_cells(
                        x if x[0] == 'r' else world['names'][x[1]]['t']))
        for nm_ in world['names']:
            cov_.update(rect_cells(nm_['t']))
        spot = next(((0, 0, r, c) for r in range(h0 + 3)
                     for c in range(w0 + 3)
                     if ix.occupant((0, 0, r, c)) is None and
                     (0, 0, r, c) not in cov_), None)
        kind_ = fr.randrange(3)
        na, nb = ['nm', ks[0]], ['nm', ks[1]]
        f = ['op', '+', ['f', 'IFERROR', na, ['n', 0]],
             ['f', 'IFERROR', nb, ['n', 0]]] if kind_ == 0 else \
            ['op', '+', ['f', 'ISERROR', na], ['f', 'ISERROR', nb]] \
            if kind_ == 1 else \
            ['f', 'IF', ['f', 'ISERROR', nb], ['n', 7], na]
        if spot:
            world['cells'].append({'at': list(spot), 'f': f})
            world['books'][0][0] = [max(h0, spot[2] + 1),
                                    max(w0, spot[3] + 1)]
    if sw.chance(.6):
        leaves_ = []
        for k, nm in enumerate(world['names']):
            if nm['b'] == 0:
                tg = nm['t']
                single = (tg[3], tg[4]) == (tg[5], tg[6])
                leaves_.append(['nm', k] if single else ['f', 'SUM', ['nm', k]])
        for c in world['cells']:
            if c['at'][0] != 0 or c['at'][1] != 0:
                r = ['r'] + c['at'] + c['at'][2:]
                if 'arr' not in c and r not in leaves_:
                    leaves_.append(r)
                elif 'arr' in c:
                    # spill reference (B1#) to an array formula elsewhere
                    leaves_.append(['f', 'SUM', ['an'] + c['at']])
        fr.shuffle(leaves_)
        if fr.chance(.4):
            # names first: two different names (both may be undefined) in
            # one formula, each behind its own interceptor
            leaves_.sort(key=lambda x: x[0] != 'r')
        idx = Index(world)
        h, w = world['books'][0][0]
        free = [(0, 0, r, c) for r in range(h + 1) for c in range(w + 1)
                if idx.occupant((0, 0, r, c)) is None]
        covered = set()
        for c in world['cells']:
            if 'f' in c:
                for x in refs_of(c['f']):
                    rr = x if x[0] == 'r' else world['names'][x[1]]['t']
                    covered.update(rect_cells(rr))
        for nm in world['names']:
            covered.update(rect_cells(nm['t']))
        free = [p for p in free if p not in covered]
        for _ in range(fr.randrange(1, 3)):
            if len(leaves_) < 2 or not free:
                break
            a, b2 = leaves_.pop(), leaves_.pop()
            for leaf in (a, b2):    # names met here become fault points
                for x in walk(leaf):
                    if x[0] == 'nm':
                        must_names.add(x[1])
            k = fr.randrange(6)
            if k == 4:    # IS... predicates other than ISERROR
                f = ['op', '+', ['f', fr.pick(['ISNA', 'ISNUMBER', 'ISTEXT']),
                                 a],
                     ['f', fr.pick(['ISNA', 'ISNUMBER', 'ISBLANK']), b2]]
            elif k == 5:
                f = ['f', 'IF', ['f', fr.pick(['ISNUMBER', 'ISNA']), a],
                     ['n', 7], ['f', 'IFERROR', b2, ['n', 2]]]
            elif k == 0:
                f = ['op', '+', ['f', 'IFERROR', a, ['n', 0]],
                     ['f', 'IFERROR', b2, ['n', 0]]]
            elif k == 1:
                f = ['op', '+', ['f', 'ISERROR', a], ['f', 'ISERROR', b2]]
            elif k == 2:
                f = ['f', 'IF', ['f', 'ISERROR', b2], ['n', 7], a]
            else:
                f = ['op', '+', ['f', 'IFERROR', a, ['n', 1]], b2]
            at = free.pop(fr.randrange(len(free)))
            world['cells'].append({'at': list(at), 'f': f})
        world['books'][0][0] = [h + 1, w + 1]
    points = []
    for b in range(1, len(world['books'])):
        points.append({'kind': 'book', 'b': b, 'disk': fr.pick(DISK_KINDS),
                       'arg': fr.randrange(1 << 20)})
    sheets = [(b, s) for b, bk in enumerate(world['books'])
              for s in range(len(bk))]
    fr.shuffle(sheets)
    root_sheets = len(world['books'][0])
    for b, s in sheets[:fr.randrange(0, 3)]:
        if b == 0 and root_sheets == 1:
            continue
        points.append({'kind': 'sheet', 'b': b, 's': s})
    for k in range(len(world['names'])):
        if fr.chance(.5) or k in must_names:
            points.append({'kind': 'name', 'k': k,
                           'broken': fr.chance(.4) and
                           k not in must_undefined})
    points = points[:5]
    fcells = [i for i, c in enumerate(world['cells'])
              if 'f' in c and 'arr' not in c]
    fr.shuffle(fcells)
    nfun = fr.randrange(0, 3)
    for i in fcells[:nfun]:
        k = len(points)
        c = world['cells'][i]
        if fr.chance(.6):
            # the call sits at the top, inside an interceptor, or in a branch
            pos = fr.randrange(4)
            call = ['f', '@FF%d' % k, c['f']]
            if pos == 1:
                call = ['f', 'IFERROR', call, ['n', 3]]
            elif pos == 2:
                call = ['f', 'IF', ['op', '>', c['f'], ['n', 0]], call,
                        ['n', 2]]
            elif pos == 3:
                call = ['op', '+', ['f', 'ISERROR', call], ['n', 0]]
            c['f'] = call
            points.append({'kind': 'func', 'cell': i, 'id': k,
                           'name': fr.pick(UNKNOWN)})
        else:
            pos = fr.randrange(5)
            lit = ['rl', k]
            if pos == 4:
                # what Excel leaves of a multi-area reference when one of
                # its areas is deleted: (A1:A2,#REF!) - switched off, the
                # literal is the area's first cell again
                area = ['r', c['at'][0], c['at'][1], AREA_ROW, 0,
                        AREA_ROW + 1, 0]    # two cells nobody populates
                c['f'] = ['op', '+', c['f'], ['f', 'SUM', [
                    'u', area, ['rl', k, 'area']]]]
            elif pos == 0:
                c['f'] = ['op', '+', c['f'], lit]
            elif pos == 1:
                c['f'] = ['f', 'IFERROR', ['op', '+', c['f'], lit], ['n', 7]]
            elif pos == 2:
                c['f'] = ['f', 'IF', ['op', '>', c['f'], ['n', 1]], lit,
                          c['f']]
            else:
                c['f'] = ['op', '+', ['f', 'ISERROR', lit], c['f']]
            points.append({'kind': 'reflit', 'cell': i, 'id': k,
                           'at': list(c['at']), 'area': pos == 4,
                           'qual': fr.pick(REF_QUALIFIERS)})
    n = len(points)
    er = Rng(seed, 'subsets')
    if n <= t['enum']:
        subsets = [list(x) for r in range(1, n + 1)
                   for x in itertools.combinations(range(n), r)]
        exhaustive = True
    else:
        seen, subsets = set(), []
        for k in range(n):            # every single fault, then random sets
            subsets.append([k])
            seen.add((k,))
        while len(subsets) < t['sample'] + n:
            x = tuple(sorted(er.sample(range(n), er.randrange(2, n + 1))))
            if x not in seen:
                seen.add(x)
                subsets.append(list(x))
        exhaustive = False
    pl = identity_placement(world) if er.chance(.3) else gen_placement(
        Rng(seed, 'place'), world)
    transient = er.chance(.25)
    if transient:
        for p in points:
            if p['kind'] == 'book':
                p['transient'] = er.randrange(1, 3)
                if p['disk'] == 'ABSENT':
                    p['disk'] = 'ENOENT'
    sched = {'kind': 'file', 'mode': 'root', 'book_order': [0],
             'placement': pl, 'sheet_orders': {},
             'exec_seed': None, 'extlinks': er.chance(.3),
             'compact': er.pick([1, 1, 2, 1000])}
    # (not with real externalLink parts: to_dict() exports the numeric link
    # id, which from_dict() cannot resolve - C09's business)
    # (nor with spill references: a dictionary carries no array anchors)
    spill = any(x[0] == 'an' for c in world['cells'] if 'f' in c
                for x in walk(c['f']))
    if not sched['extlinks'] and not transient and not spill and \
            er.chance(.25):
        sched['reimport'] = True
    # (finishing in two steps - finish(complete=False), later finish() - is
    # not generated: ranges into workbooks that are completed later are
    # assembled from blanks by the first step and stay that way)
    return {'prop': ID, 'seed': seed, 'tier': tier, 'world': world,
            'points': points, 'subsets': subsets, 'exhaustive': exhaustive,
            'transient': transient, 'schedule': sched}



# -------------------------------------------------------------- instantiation
AREA_ROW = 40     # far below every sheet window

# what is left when Excel turns a reference into #REF!: the sheet part stays
# (cells deleted: Sheet!#REF!) or the cell part stays (sheet deleted: #REF!A1);
# a literal typed into a dictionary may be in lower case
REF_QUALIFIERS = [None, None, 'Gone!', "'Q1 data'!", "'Bob''s data'!",
                  "'it''s ''x'''!", '[1]Gone!', "'[old book.xlsx]Gone'!",
                  "'[3]Bob''s'!", '>A1', '>$B$2', '>A1:B2', '>$C:$C', '>2:3',
                  'lower', 'legacy', 'legacy']


def instantiate(world, points, on):
    """Concrete world for the fault vector ``on`` (set of point indices)."""
    w = copy.deepcopy(world)
    info = {'absent_sheets': [], 'bad_books': {}, 'bad_names': [],
            'unknown_cells': [], 'reflit_cells': [], 'broken_names': []}
    by_id = {p.get('id'): (k, p) for k, p in enumerate(points)}

    def fix(e):
        if e[0] == 'rl':
            k, p = by_id[e[1]]
            if len(e) > 2:      # an area of a union
                return ['e', '#REF!', 'area'] if k in on else \
                    ['r', p['at'][0], p['at'][1], AREA_ROW + 2, 0,
                     AREA_ROW + 2, 0]
            if k not in on:
                return ['n', 0]
            return ['e', '#REF!', p['qual']] if p.get('qual') else \
                ['e', '#REF!']
        if e[0] in ('u', 'x'):
            return [e[0]] + [fix(x) for x in e[1:]]
        if e[0] in ('op', 'f'):
            e = e[:2] + [fix(x) for x in e[2:]]
            if e[0] == 'f' and e[1].startswith('@FF'):
                k, p = by_id[int(e[1][3:])]
                e[1] = p['name'] if k in on else 'SUM'
        return e

    for i, c in enumerate(w['cells']):
        if 'f' in c:
            c['f'] = fix(c['f'])
    for k, p in enumerate(points):
        if k not in on:
            continue
        if p['kind'] == 'book':
            info['bad_books'][p['b']] = p
        elif p['kind'] == 'sheet':
            info['absent_sheets'].append((p['b'], p['s']))
        elif p['kind'] == 'name':
            info['bad_names'].append(p['k'])
            if p.get('broken'):
                info['broken_names'].append(p['k'])
        elif p['kind'] == 'func':
            info['unknown_cells'].append(p['cell'])
        elif p['kind'] == 'reflit':
            info['reflit_cells'].append(p['cell'])
    # a deleted sheet takes the names that point into it with it (Excel turns
    # them into #REF! names; here they are left undefined)
    gone = set(info['absent_sheets'])
    for k, nm in enumerate(w['names']):
        if (nm['t'][1], nm['t'][2]) in gone and k not in info['bad_names']:
            info['bad_names'].append(k)
    # names left out of the file ...
    info['skip_names'] = list(info['bad_names'])
    # ... and names that are (chains of) aliases of such a name: defined, but
    # as unresolvable as what they stand for
    changed = True
    while changed:
        changed = False
        for k, nm in enumerate(w['names']):
            if nm.get('alias') in info['bad_names'] and \
                    k not in info['bad_names']:
                info['bad_names'].append(k)
                changed = True
    return w, info


class FaultObservation(Observation):
    """Observation in which faulted regions read as #REF!."""

    def __init__(self, world, placement, sol, loaded, info, transient):
        from formulas.tokens.operand import Error
        self._ref = Error.errors['#REF!']
        self.info = info
        self.bad_names = set(info['bad_names'])
        self.gone = set(tuple(x) for x in info['absent_sheets'])
        self.bad_books = set() if transient else set(info['bad_books'])
        super().__init__(world, placement, sol, loaded)

        self.failed_rects = ()   # transient mode: rectangles assumed failed
        self._loaded = set(loaded)

    def was_loaded(self, i):
        b, s, r1, c1, r2, c2 = cell_rect(self.world['cells'][i])
        return self.P.rect_id(b, s, r1, c1, r2, c2) in self._loaded

    def gone_pos(self, pos):
        return (pos[0], pos[1]) in self.gone or pos[0] in self.bad_books

    def at(self, pos):
        if self.gone_pos(pos):
            return self._ref
        return super().at(pos)

    def rect(self, ref):
        if tuple(ref[1:]) in self.failed_rects:
            out = np.empty((ref[5] - ref[3] + 1, ref[6] - ref[4] + 1), object)
            out[:] = self._ref
            return out
        return super().rect(ref)


# ------------------------------------------------------------------- execute
def leaves(e, conds=(), icpt=False, sw=False):
    """Like cyc.occurrences but also yields error literals and reports the
    function names met."""
    k = e[0]
    if k == 'an':     # spill reference: unresolved when its sheet / book is
        e, k = ['r', e[1], e[2], e[3], e[4], e[3], e[4]], 'r'
    if k in ('u', 'x'):   # union: every area; intersection: the common cells
        for x in refs_of(e):
            yield x, conds, icpt, sw
        for x in e[1:]:
            if x[0] == 'e':     # a deleted area: (A1:A2,#REF!)
                yield x, conds, icpt, sw
        return
    if k in ('r', 'nm', 'e'):
        yield e, conds, icpt, sw
    elif k == 'op':
        for x in e[2:]:
            yield from leaves(x, conds, icpt, sw)
    elif k == 'f':
        fn, a = e[1], e[2:]
        if fn == 'IF' and len(a) >= 2:
            yield from leaves(a[0], conds, icpt, sw)
            yield from leaves(a[1], conds + (('if', a[0], True),), icpt, sw)
            if len(a) > 2:
                yield from leaves(a[2], conds + (('if', a[0], False),),
                                  icpt, sw)
        elif fn in ('IFERROR', 'IFNA') and len(a) == 2:
            yield from leaves(a[0], conds, True, sw)
            yield from leaves(a[1], conds + (('iferr', a[0], fn),), icpt, sw)
        elif fn in ('ISERROR', 'COUNT', 'ISNA', 'ISNUMBER', 'ISTEXT',
                    'ISBLANK', 'ISLOGICAL'):
            for x in a:
                yield from leaves(x, conds, icpt, True)
        else:
            for x in a:
                yield from leaves(x, conds, icpt, sw)


def run_one(world, placement, sched, info, transient, log, stats):
    """Load root, finish, calculate under the fault plan ``info``."""
    P = Placement(placement)
    disk = SimDisk().install()
    try:
        books = xlsx_books(world, placement,
                           skip_sheets=[tuple(x) for x in
                                        info['absent_sheets']],
                           skip_names=info.get('skip_names',
                                                info['bad_names']),
                           broken_names=info.get('broken_names', ()),
                           extlinks=sched.get('extlinks', False))
        for name, data in books.items():
            disk.put(name, data)
        for b, p in info['bad_books'].items():
            path = disk.path(P.file(b))
            if p['disk'] == 'ABSENT':
                disk.files.pop(path, None)
            else:
                disk.plan[path] = {'kind': p['disk'], 'arg': p['arg'],
                                   'transient': p.get('transient', 0)}
        m, _ = build_file_model(world, placement, sched, disk=disk, log=log)
        if sched.get('reimport'):
            # the documented export / import round trip (through JSON text):
            # the re-imported model must show the same local damage
            import json
            from formulas import ExcelModel
            log.add('client', 'reimport')
            loaded = list(m.cells)
            m = ExcelModel().from_dict(json.loads(json.dumps(m.to_dict())))
            # (what counts as loaded is what the file model had loaded: the
            # export also lists the blank fillers of cells never read)
            m.loaded_cells = loaded
        sol = m.calculate()
    finally:
        disk.uninstall()
    for b in list(info['bad_books']):
        if disk.path(P.file(b)) in disk.served:
            # the corruption went unnoticed because the reader never touched
            # the damaged (checksummed) member: the book is healthy
            del info['bad_books'][b]
            stats['corruption_not_read'] = stats.get(
                'corruption_not_read', 0) + 1
    for k, v in disk.fired.items():
        stats['faults_fired'][k] = stats['faults_fired'].get(k, 0) + v
    stats['opens'] += len([x for x in disk.log if x[0] == 'open'])
    return m, sol, disk


def execute(trace, env=None):
    world0, points, s = trace['world'], trace['points'], trace['schedule']
    pl = s['placement']
    P = Placement(pl)
    transient = trace.get('transient', False)
    log = EventLog()
    stats = {'faults_fired': {}, 'opens': 0, 'executions': 0,
             'independent_checked': 0, 'direct_checked': 0,
             'dependents_checked': 0, 'fixpoint_checked': 0,
             'transient_checked': 0, 'exhaustive_worlds': 0,
             'structural_faults': {}, 'reopened_after_failure': 0}
    viol = []
    keys = set()

    def fail(clause, detail, **kw):
        v = {'clause': clause, 'detail': detail}
        v.update(kw)
        viol.append(v)

    # fault-free twin
    twin_w, twin_info = instantiate(world0, points, set())
    try:
        tm, tsol, _ = run_one(twin_w, pl, s, twin_info, False, log,
                              {'faults_fired': {}, 'opens': 0})
    except Exception as ex:
        import traceback
        fail('C14.twin', 'fault-free twin raised %r' % ex,
             tb=traceback.format_exc()[-1500:])
        return result(trace, viol, log, stats, keys)
    twin = Observation(twin_w, pl, tsol, getattr(
        tm, 'loaded_cells', None) or list(tm.cells)).normal(names=False)
    if trace.get('exhaustive'):
        stats['exhaustive_worlds'] = 1
    for on in trace['subsets']:
        on = set(on)
        w, info = instantiate(world0, points, on)
        stats['executions'] += 1
        log.add('env', 'faults', on=sorted(on))
        try:
            m, sol, disk = run_one(w, pl, s, info, transient, log, stats)
        except Exception as ex:
            import traceback
            fail('C14.noabort', 'faults %s: %r' % (
                describe(points, on), ex), on=sorted(on),
                tb=traceback.format_exc()[-1500:])
            continue
        for p in (points[k] for k in on):
            if p['kind'] != 'book':
                stats['structural_faults'][p['kind']] = \
                    stats['structural_faults'].get(p['kind'], 0) + 1
        if any(n > 1 for n in disk.opens.values()):
            stats['reopened_after_failure'] += 1
        obs = FaultObservation(w, pl, sol, getattr(
            m, 'loaded_cells', None) or list(m.cells), info, transient)
        nontriv = judge(w, obs, twin, info, transient, fail, stats,
                        describe(points, on), sorted(on), pl)
        fired = bool(disk.fired) or any(
            points[k]['kind'] != 'book' for k in on)
        if nontriv and fired:
            keys.add(digest([sorted(on), [points[k] for k in sorted(on)]]))
    return result(trace, viol, log, stats, keys)


def describe(points, on):
    out = []
    for k in sorted(on):
        p = points[k]
        if p['kind'] == 'book':
            out.append('book%d:%s%s' % (p['b'], p['disk'],
                                        '~%d' % p['transient']
                                        if p.get('transient') else ''))
        elif p['kind'] == 'sheet':
            out.append('sheet%d.%d absent' % (p['b'], p['s']))
        elif p['kind'] == 'name':
            out.append('name%d %s' % (p['k'], 'defined as #REF!'
                                      if p.get('broken') else 'undefined'))
        elif p['kind'] == 'func':
            out.append('cell%d calls %s' % (p['cell'], p['name']))
        else:
            out.append('cell%d has #REF! literal' % p['cell'])
    return ', '.join(out)


def judge(w, obs, twin, info, transient, fail, stats, what, on, pl):
    G = Graph(w)
    n = len(w['cells'])
    normal = obs.normal(names=False)
    bad_books = set(info['bad_books'])
    gone_sheets = set(tuple(x) for x in info['absent_sheets'])

    def gone(pos):      # permanently or possibly unavailable
        return (pos[0], pos[1]) in gone_sheets or pos[0] in bad_books

    def surely_gone(pos):   # a transiently failing book may well be loaded
        return (pos[0], pos[1]) in gone_sheets or (
            pos[0] in bad_books and not transient)

    present = [i for i in range(n) if normal['c%d' % i] != MISSING and
               not surely_gone(tuple(w['cells'][i]['at']))]
    # a cell the model did load must have a value (an error value at worst)
    for i in range(n):
        if normal['c%d' % i] == MISSING and obs.was_loaded(i) and \
                not gone(tuple(w['cells'][i]['at'])):
            fail('C14.noabort', 'faults {%s}: cell %d was loaded but has no '
                 'value at all after the calculation' % (what, i),
                 cell=i, on=on)
    # direct fault use per cell
    direct_prop, direct_any, kinds = set(), set(), {}
    for i in present:
        c = w['cells'][i]
        if 'f' not in c:
            continue
        if i in info['unknown_cells']:
            direct_any.add(i)
            direct_prop.add(i)
            kinds.setdefault(i, set()).add('e:#NAME?')
        for node, conds, icpt, sw in leaves(c['f']):
            hit = None
            if node[0] == 'e' and node[1] == '#REF!':
                hit = {'e:#REF!'}
                if len(node) > 2 and node[2] == 'area':
                    # (as an operand of a reference operator the literal
                    # makes the whole reference invalid: any error value)
                    hit = {'e:#REF!', 'e:#VALUE!', 'e:#NULL!'}
            elif node[0] == 'nm':
                if node[1] in info['bad_names']:
                    hit = {'e:#REF!', 'e:#NAME?'}
                elif any(gone(q) for q in rect_cells(
                        w['names'][node[1]]['t'])):
                    hit = {'e:#REF!'}
            elif node[0] == 'r' and any(gone(q) for q in rect_cells(node)):
                hit = {'e:#REF!'}
            if hit:
                direct_any.add(i)
                if not conds and not icpt and not sw:
                    direct_prop.add(i)
                    kinds.setdefault(i, set()).update(hit)
    if transient:
        # a cell OF a transiently failing book is itself an unresolved item
        # for the references that met the fault (its node then holds #REF!)
        for i in present:
            if w['cells'][i]['at'][0] in bad_books:
                direct_any.add(i)
    tainted = set()
    for i in present:
        if G.reach(i) & direct_any:
            tainted.add(i)
    indep = [i for i in present if i not in tainted]
    dependents = [i for i in present if i not in direct_prop and
                  G.reach(i, 'prop') & direct_prop]
    # --- C14.local
    for i in indep:
        stats['independent_checked'] += 1
        if normal['c%d' % i] != twin['c%d' % i] and twin['c%d' % i] != MISSING:
            fail('C14.local', 'faults {%s}: cell %d does not depend on any '
                 'faulted item but is %s instead of %s' % (
                     what, i, normal['c%d' % i], twin['c%d' % i]),
                 cell=i, on=on)
    for i in sorted(direct_prop):
        # the left-most error wins: a direct user that also consumes another
        # faulted cell may show that cell's error kind
        if (G.reach(i) - {i}) & direct_any:
            kinds[i].update({'e:#REF!', 'e:#NAME?'})
            # (... a reference one area of which is #REF! is #VALUE! / #NULL!)
            if any('e:#VALUE!' in kinds.get(j, ()) for j in G.reach(i) - {i}):
                kinds[i].update({'e:#VALUE!', 'e:#NULL!'})
        # a cell OF a transiently failing book is #REF! as a whole when the
        # open that was meant to load it failed
        if transient and w['cells'][i]['at'][0] in bad_books:
            kinds[i].add('e:#REF!')
    bad_transient = transient and bool(bad_books)
    # --- C14.kind
    for i in sorted(direct_prop):
        got = normal['c%d' % i]
        flat = [x for row in got for x in row]
        ok = all(x in kinds[i] for x in flat)
        tw = twin['c%d' % i]
        if not ok and tw != MISSING and i not in info['unknown_cells'] and \
                any(x.startswith('e:') for row in tw for x in row):
            # the formula yields an error of its own even without the fault
            # (e.g. a range that does not fit its cell): which of the two
            # errors shows is not the fault's business
            ok = all(x.startswith('e:') for x in flat)
        if bad_transient:
            # a transient fault may or may not have hit this reference
            if not ok and got == twin['c%d' % i]:
                stats['transient_checked'] += 1
                continue
            if not ok and i not in info['unknown_cells'] and \
                    transient_ok(w, i, info, gone_sheets):
                # the only unresolved items this cell uses directly are
                # transiently failing books: it may have been served (and
                # then shows whatever the served cells hold, errors of other
                # faults included) - judged by C14.transient below
                ok = True
        stats['direct_checked'] += 1
        if not ok:
            fail('C14.kind', 'faults {%s}: cell %d uses the unresolved item '
                 'directly and is %s, expected %s' % (
                     what, i, got, sorted(kinds[i])), cell=i, on=on)
    # --- C14.dependents
    for i in dependents:
        got = normal['c%d' % i]
        flat = [x for row in got for x in row]
        stats['dependents_checked'] += 1
        if bad_transient and got == twin['c%d' % i]:
            continue
        if not any(x.startswith('e:') for x in flat):
            if bad_transient:
                continue   # judged by C14.transient / fixpoint below
            fail('C14.dependents', 'faults {%s}: cell %d is strictly '
                 'downstream of an unresolved item but is %s' % (
                     what, i, got), cell=i, on=on)
    # --- C14.fixpoint (this is what judges cells behind an interceptor)
    if not bad_transient:
        fp = FixedPoint(w, pl)
        only = [i for i in present if i not in info['unknown_cells'] and
                'f' in w['cells'][i]]
        bad, st = fp.check(obs, only=only)
        stats['fixpoint_checked'] += st['formula_checked']
        for i, whatk, exp, got in bad:
            if whatk != 'fixpoint':
                continue
            if i in tainted and errors_only_differ(exp, got):
                continue
            fail('C14.fixpoint', 'faults {%s}: cell %d = %s but its formula '
                 'on the observed values gives %s' % (what, i, got, exp),
                 cell=i, on=on)
    else:
        # --- C14.transient: may fail, never wrong data
        for i in tainted:
            got = normal['c%d' % i]
            flat = [x for row in got for x in row]
            stats['transient_checked'] += 1
            if got == twin['c%d' % i] or any(x.startswith('e:')
                                             for x in flat):
                continue
            if not depends_only_on_books(G, w, i, direct_any, info):
                continue
            if 'f' not in w['cells'][i]:
                continue
            # each reference into a transiently failing book was either
            # served or replaced by #REF!: the value must be the cell's own
            # formula under one of these assignments (on observed values)
            fp = FixedPoint(w, pl)
            rects = []
            for x in refs_of(w['cells'][i]['f']):
                r = x if x[0] == 'r' else w['names'][x[1]]['t']
                if r[1] in bad_books and tuple(r[1:]) not in rects:
                    rects.append(tuple(r[1:]))
            ok = False
            for mask in itertools.product((0, 1), repeat=min(len(rects), 4)):
                obs.failed_rects = tuple(r for r, b in zip(rects, mask) if b)
                st, exp = fp.expected(i, obs)
                if st != 'ok' or exp == got:
                    ok = True     # cannot evaluate (book never loaded) or ok
                    break
            obs.failed_rects = ()
            if ok:
                continue
            fail('C14.transient', 'transient faults {%s}: cell %d is %s - '
                 'neither an error nor its fault-free value %s' % (
                     what, i, got, twin['c%d' % i]), cell=i, on=on)
    return bool(tainted & set(i for i in present if 'f' in w['cells'][i])) \
        and any('f' in w['cells'][i] for i in indep)


def transient_ok(w, i, info, gone_sheets):
    """With transient disk faults a direct user of a satellite book may have
    been served: only permanent items force an error."""
    c = w['cells'][i]
    for node, conds, icpt, sw in leaves(c['f']):
        if conds or icpt or sw:
            continue
        if node[0] == 'e' and node[1] == '#REF!':
            return False
        if node[0] == 'nm' and node[1] in info['bad_names']:
            return False
        r = node if node[0] == 'r' else w['names'][node[1]]['t'] \
            if node[0] == 'nm' else None
        if r is not None and any((q[0], q[1]) in gone_sheets
                                 for q in rect_cells(r)):
            return False
    return True


def depends_only_on_books(G, w, i, direct_any, info):
    return True


def errors_only_differ(a, b):
    """Same shape, and wherever they differ both are error values."""
    if a == MISSING or b == MISSING or len(a) != len(b):
        return False
    for ra, rb in zip(a, b):
        if len(ra) != len(rb):
            return False
        for x, y in zip(ra, rb):
            if x != y and not (x.startswith('e:') and y.startswith('e:')):
                return False
    return True


def result(trace, viol, log, stats, keys):
    wk = digest([trace['world'], trace['schedule']])
    return {'violations': viol, 'outcome': 'n/a', 'events': log.digest(),
            'stats': stats, 'nontrivial': bool(keys),
            'case_key': wk, 'case_keys': sorted(digest([wk, k])
                                                for k in keys)}


def sample(trace):
    w, _ = instantiate(trace['world'], trace['points'], set(range(len(
        trace['points']))))
    return {'workbook_all_faults_on': dict(dict_items(
        w, trace['schedule']['placement'])),
        'fault_points': trace['points'], 'subsets': trace['subsets'][:12],
        'n_subsets': len(trace['subsets']), 'exhaustive': trace['exhaustive'],
        'transient': trace.get('transient', False)}


def shrink_candidates(trace):
    subs = trace['subsets']
    if len(subs) > 1:
        for k in reversed(range(len(subs))):
            t = copy.deepcopy(trace)
            t['subsets'] = [subs[k]]
            t['exhaustive'] = False
            yield 'only subset %d' % k, t
    elif subs and len(subs[0]) > 1:
        for x in subs[0]:
            t = copy.deepcopy(trace)
            t['subsets'] = [[y for y in subs[0] if y != x]]
            yield 'fault %d off' % x, t
    world = trace['world']
    used_cells = {p['cell'] for p in trace['points'] if 'cell' in p}
    used_names = {p['k'] for p in trace['points'] if p['kind'] == 'name'}
    for desc, w, meta in shrinkers.world_candidates(world):
        last = len(world['cells']) - 1
        if desc.startswith('drop cell'):
            if desc != 'drop cell %d' % last or last in used_cells:
                continue
        if 'dropped_name' in meta and (
                meta['dropped_name'] != len(world['names']) - 1 or
                meta['dropped_name'] in used_names):
            continue
        # fault markers must survive
        marks = lambda ww: sorted(
            str(x[1]) for c in ww['cells'] if 'f' in c for x in walk_all(c['f'])
            if x[0] == 'rl' or (x[0] == 'f' and str(x[1]).startswith('@FF')))
        if marks(w) != marks(world):
            continue
        t = copy.deepcopy(trace)
        t['world'] = w
        t['schedule']['placement'] = shrinkers.fix_placement(
            t['schedule']['placement'], meta)
        yield desc, t
    for desc, p in shrinkers.placement_candidates(
            world, trace['schedule']['placement']):
        t = copy.deepcopy(trace)
        t['schedule']['placement'] = p
        yield desc, t
    if trace['schedule'].get('compact') != 1:
        t = copy.deepcopy(trace)
        t['schedule']['compact'] = 1
        yield 'compact := 1', t
    for k, p in enumerate(trace['points']):
        if p['kind'] == 'book' and p['disk'] != 'ENOENT':
            t = copy.deepcopy(trace)
            t['points'][k]['disk'] = 'ENOENT'
            yield 'point %d: ENOENT' % k, t


def walk_all(e):
    yield e
    if e[0] in ('op', 'f'):
        for x in e[2:]:
            yield from walk_all(x)


def coverage_extra(stats):
    return {'evaluations': int(stats.get('executions', 0)),
            'faults_fired': stats.get('faults_fired', {}),
            'structural_faults_applied': stats.get('structural_faults', {}),
            'worlds_with_every_subset_enumerated': stats.get(
                'exhaustive_worlds', 0)}
