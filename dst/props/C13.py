"""C13 - volatile functions are never frozen and are seen consistently.

One run: an acyclic workbook with NOW / TODAY / RAND / RANDBETWEEN sites at
random depth, loaded under a virtual clock; several *executables* (the loaded
model, its JSON re-import, deepcopy, dill round trip, ExcelModel.compile
results and their copies, single compiled formulas) are evaluated 2-6 times
each, interleaved by the scheduler; the clock advances on every read (it can
cross midnight inside one calculation) and jumps - forwards or backwards, to
days never used before - between evaluations.
"""
import copy
import datetime as dt
import itertools

import numpy as np

from ..rng import Rng, digest
from ..world import (gen_world, gen_placement, identity_placement, profile,
                     dict_items, Index, cell_rect)
from ..expr import Placement, Renderer, refs_of, walk
from ..oracle import Observation, FixedPoint
from ..harness import EventLog, build_dict_model, build_file_model
from ..values import MISSING, norm_value
from ..seams import SimClock, excel_serial, seed_numpy, numpy_pos
from .. import shrinkers

ID = 'C13'
LEVEL = 'exploration'
RULE = ('One run = one acyclic workbook with 1-4 volatile cells (NOW, TODAY, '
        'RAND, RANDBETWEEN nested in + - * IF SUM, also inside array '
        'formulas) and dependents, loaded by dictionary or file path under '
        'the virtual clock; 2-5 executables (model | from_dict(to_dict()) | '
        'deepcopy | dill | ExcelModel.compile(inputs, outputs) | copy of a '
        'compiled function | single compiled formula) evaluated 2-6 times '
        'each in a seeded interleaving, clock advanced 0-90 000 s per read '
        'and moved to an unused day (forwards or backwards) between '
        'evaluations. Non-trivial: some executable with >= 1 volatile site '
        'was evaluated >= 2 times at different virtual times; distinct by '
        '(world, schedule, steps, clock) digest.')
ASSUMPTIONS = [
    'the library reads time through the `datetime` global of '
    'formulas.functions.date and randomness through numpy\'s legacy global '
    'generator (seams of the simulator); another clock would show up as '
    'C13.fresh.clock failing with a value near the real date',
    'C13.fresh.rand is probabilistic with false-alarm probability 2^-53 per '
    'comparison (1e-12 for RANDBETWEEN(0,10^12)), reproducible from the seed',
    'formula semantics trusted (g(t) is evaluated by the stand-alone formula '
    'compiler with the volatile call replaced by the harness-computed Excel '
    'serial of the virtual clock reading; tolerance 1e-9 day)',
]
TIERS = {
    'quick': dict(win=4, max_cells=8, max_exes=4, max_evals=4),
    'thorough': dict(win=5, max_cells=12, max_exes=5, max_evals=6),
}
CLOCK = ('NOW', 'TODAY')
RAND = ('RAND', 'RANDBETWEEN')
TOL = 1e-9
BIG = 10 ** 12


def sites(e):
    return [x for x in walk(e) if x[0] == 'f' and x[1] in CLOCK + RAND]


def clock_sites(e):
    return [x for x in walk(e) if x[0] == 'f' and x[1] in CLOCK]


def rand_sites(e):
    return [x for x in walk(e) if x[0] == 'f' and x[1] in RAND]


# ------------------------------------------------------------------ generate
def volatile_form(rng, inner, kind, array=False):
    """Wrap a scalar expression `inner` (or a range, for array cells) into a
    formula with a volatile site; RAND forms are injective in the site."""
    if kind in CLOCK:
        site = ['f', kind]
        k = rng.randrange(5)
        if array:
            return ['op', rng.pick(['+', '-']), inner, site]
        if k == 0:
            return site
        if k == 1:
            return ['op', '+', site, inner]
        if k == 2:
            return ['op', '-', inner, site]
        if k == 3:
            return ['op', '+', ['f', 'IF', ['op', '>', inner, ['n', 0]], site,
                                ['n', 5]], ['n', 0]]
        k2 = rng.randrange(4)
        if k2 == 0:
            return ['op', '+', ['f', 'SUM', ['n', 1], site], inner]
        if k2 == 1:
            return ['f', 'IFERROR', ['op', '+', site, inner], ['n', 0]]
        if k2 == 2:
            return ['f', 'MAX', site, ['n', 0]]
        return ['f', 'IF', ['op', '>', inner, ['n', 0]], ['n', 5],
                ['op', '+', site, ['n', 1]]]
    if kind == 'RAND':
        site = ['f', 'RAND']
        k = rng.randrange(5)
        if array:
            return ['op', '+', inner, site]
        if k == 0:
            return site
        if k == 1:
            return ['op', '+', site, inner]
        if k == 2:
            return ['op', '*', ['f', 'SUM', ['n', 1], site], ['n', 2]]
        if k == 3:
            return ['op', '-', inner, site]
        return ['op', '*', site, ['n', rng.randrange(1, 9)]]
    # RANDBETWEEN with a huge span (injective up to 1e-12) or a small span
    # (range clause only)
    if rng.chance(.45):
        return ['f', 'RANDBETWEEN', ['n', 0], ['n', BIG]]
    if rng.chance(.25):
        # bounds near the end of the exactly representable integers with a
        # narrow span: sums of bound and draw round there
        lo = rng.pick([4 * 10 ** 15, 2 ** 52, 2 ** 53 - 4, -4 * 10 ** 15 - 2,
                       9 * 10 ** 15])
        return ['f', 'RANDBETWEEN', ['n', lo],
                ['n', lo + rng.pick([1, 1, 2, 3])]]
    if rng.chance(.5):
        lo = rng.randrange(0, 5)
        return ['f', 'RANDBETWEEN', ['n', lo],
                ['n', lo + rng.randrange(1, 30)]]
    # negative and fractional bounds (an integer must lie in between, or the
    # result must be an error)
    lo = rng.randrange(-12, 4) + rng.pick([0, 0.5, 0.25, 0.75])
    hi = lo + rng.pick([0.25, 0.5, 1, 1.5, 2, 3.75])
    return ['f', 'RANDBETWEEN', ['n', lo], ['n', hi]]


def generate(seed, tier):
    t = TIERS[tier]
    rng = Rng(seed, 'world')
    sw = Rng(seed, 'swarm')
    prof = profile(
        win=t['win'], max_cells=t['max_cells'], min_cells=3,
        max_books=sw.pick([1, 1, 2]),
        max_sheets=sw.pick([1, 2]), p_arr=sw.pick([0, .15]),
        p_name=sw.pick([0, .15]), p_cross=.4, p_text=0, p_bool=0, p_err=0,
        p_frac=.1, depth=sw.pick([1, 2]), w_if=sw.pick([0, 1.5]),
        w_iferror=0, w_iserror=0,
    )
    world = gen_world(rng, prof)
    vr = Rng(seed, 'volatile')
    kinds = [k for k in ('NOW', 'TODAY', 'RAND', 'RANDBETWEEN')
             if sw.chance(.7)] or ['NOW', 'RAND']
    cands = [i for i, c in enumerate(world['cells']) if i >= 1]
    vr.shuffle(cands)
    nvol = 0
    for i in cands[:vr.randrange(1, 5)]:
        c = world['cells'][i]
        kind = vr.pick(kinds)
        if 'arr' in c:
            if kind == 'RANDBETWEEN':
                continue
            c['f'] = volatile_form(vr, c['f'] if c['f'][0] == 'r' else
                                   ['n', 1], kind, array=True)
        else:
            inner = c['f'] if 'f' in c and not sites(c['f']) else \
                ['n', c.get('v', 1) if isinstance(c.get('v', 1), (int, float))
                 and not isinstance(c.get('v', 1), bool) and
                 c.get('v', 1) >= 0 else 1]
            c.pop('v', None)
            c['f'] = volatile_form(vr, inner, kind)
        nvol += 1
    if nvol == 0:
        world['cells'].append({'at': free_slot(world), 'f': ['f', 'NOW']})
    # dependents of a volatile cell in chain / fan-out / diamond shapes (every
    # one of them must see the same single value within one evaluation)
    if sw.chance(.6):
        vs = [i for i, c in enumerate(world['cells'])
              if 'f' in c and 'arr' not in c and sites(c['f'])]
        if vs:
            v = world['cells'][vr.pick(vs)]
            rv = ['r'] + v['at'] + v['at'][2:]
            made = []

            def add(f):
                at = free_slot(world)
                world['cells'].append({'at': at, 'f': f})
                made.append(['r'] + at + at[2:])
                return made[-1]
            shape = vr.randrange(4)
            b = add(['op', '+', rv, ['n', 1]])
            if shape == 0:      # diamond, joint consumer first
                add(['op', '+', rv, b])
                add(['op', '*', b, ['n', 2]])
            elif shape == 1:    # diamond, plain dependent first
                add(['op', '*', b, ['n', 2]])
                add(['op', '+', rv, b])
            elif shape == 2:    # chain
                c2 = add(['op', '*', b, ['n', 3]])
                add(['op', '-', c2, b])
            else:               # fan-out joined by SUM
                c2 = add(['op', '+', rv, ['n', 2]])
                add(['f', 'SUM', b, c2])
    # two books: each reads a volatile cell of the other, so that whichever
    # is the root of a lazily completed model pulls a volatile cell in
    if len(world['books']) > 1:
        for bsrc, bdst in ((0, 1), (1, 0)):
            vs = [c for c in world['cells'] if c['at'][0] == bsrc and
                  'f' in c and 'arr' not in c and sites(c['f'])]
            if not vs:
                at = free_slot(world, bsrc)
                world['cells'].append({'at': at, 'f': ['f', vr.pick(
                    ['NOW', 'RAND'])]})
                vs = [world['cells'][-1]]
            v = vr.pick(vs)
            at = free_slot(world, bdst)
            world['cells'].append({'at': at, 'f': [
                'op', '+', ['r'] + v['at'] + v['at'][2:], ['n', 1]]})
    # a defined name holding a volatile formula, with consumer cells
    if sw.chance(.3):
        kind = vr.pick(kinds if 'RANDBETWEEN' not in kinds else
                       [k for k in kinds if k != 'RANDBETWEEN'] or ['NOW'])
        world['vnames'] = [{'b': 0, 'f': volatile_form(
            vr, ['n', vr.randrange(0, 5)], kind)}]
        # (a defined name belongs to one workbook: its users are cells of
        # that workbook)
        at = free_slot(world, 0)
        world['cells'].append({'at': at, 'f': ['op', '+', ['vn', 0],
                                               ['n', 1]]})
        at2 = free_slot(world, 0)
        world['cells'].append({'at': at2, 'f': ['op', '-', ['r'] + at + at[2:],
                                                ['vn', 0]]})
    srng = Rng(seed, 'sched')
    kind = srng.weighted([('dict', 3), ('file', 2)])
    pl = identity_placement(world) if srng.chance(.5) else gen_placement(
        Rng(seed, 'place'), world)
    s = {'kind': kind, 'placement': pl}
    if kind == 'dict':
        s['order'] = srng.perm(len(world['cells']) + len(world['names']) +
                               len(world.get('vnames', [])))
    else:
        # (with two books: both loaded in a seeded order, or only the first
        # and the other pulled in by finish() through the references)
        s.update(mode=srng.pick(['loads', 'loads', 'root']),
                 book_order=srng.perm(len(world['books'])), sheet_orders={},
                 exec_seed=None, compact=srng.pick([1, 1, 1000]))
    # executables and interleaved evaluation steps
    er = Rng(seed, 'exes')
    exes = [{'kind': 'model'}]
    const_cells = [i for i, c in enumerate(world['cells']) if 'v' in c and
                   isinstance(c['v'], (int, float)) and
                   not isinstance(c['v'], bool)]
    vol_cells = [i for i, c in enumerate(world['cells'])
                 if 'f' in c and sites(c['f'])]
    for _ in range(er.randrange(1, t['max_exes'])):
        k = er.weighted([('todict', 1), ('deepcopy', 1.5), ('dill', 1),
                         ('compile', 2.5),
                         ('formula', 1.5), ('copyof', 1.5)])
        if k == 'compile':
            ins = er.sample(const_cells, er.randrange(1, min(
                3, len(const_cells)) + 1)) if const_cells else []
            if er.chance(.2):
                ins = []      # a function without arguments
            # compiled from the loaded model or from a copy / re-import of it
            srcs = [j for j, e in enumerate(exes)
                    if e['kind'] in ('model', 'todict') or (
                        e['kind'] in ('deepcopy', 'dill') and
                        exes[e['src']]['kind'] in ('model', 'todict',
                                                   'deepcopy', 'dill'))]
            fcells = [i for i, c in enumerate(world['cells']) if 'f' in c]
            exes.append({'kind': 'compile', 'src': er.pick(srcs),
                         'inputs': sorted(ins),
                         # all formula cells, or a subset (a model may be
                         # compiled several times for different outputs)
                         'outputs': None if er.chance(.5) else sorted(
                             er.sample(fcells, er.randrange(
                                 1, len(fcells) + 1)))})
        elif k == 'formula':
            exes.append({'kind': 'formula', 'cell': er.pick(vol_cells or [
                len(world['cells']) - 1])})
        elif k == 'copyof':
            srcs = [j for j, e in enumerate(exes)
                    if e['kind'] in ('compile', 'formula', 'deepcopy')]
            if srcs:
                exes.append({'kind': er.pick(['deepcopy', 'dill']),
                             'src': er.pick(srcs)})
        else:
            exes.append({'kind': k, 'src': 0})
    steps = []
    remaining = {j: er.randrange(2, t['max_evals'] + 1)
                 for j in range(len(exes))}
    made = {0}
    def ensure(j):
        if j in made:
            return
        if exes[j].get('src') is not None:
            ensure(exes[j]['src'])
        steps.append({'do': 'make', 'exe': j})
        made.add(j)

    while remaining:
        j = er.pick(sorted(remaining))
        if j not in made:
            ensure(j)       # copies are taken at scheduler-chosen points
            continue
        steps.append({'do': 'eval', 'exe': j})
        remaining[j] -= 1
        if not remaining[j]:
            del remaining[j]
    n_eval = sum(1 for x in steps if x['do'] == 'eval')
    cr = Rng(seed, 'clock')
    start = dt.datetime(cr.randrange(1950, 2090), cr.randrange(1, 13),
                        cr.randrange(1, 29), cr.pick([0, 11, 23, 23]),
                        cr.pick([0, 30, 59, 59]), cr.pick([0, 1, 30, 58, 59]))
    slots = cr.perm(n_eval + 2)
    clock = {
        'start': [start.year, start.month, start.day, start.hour,
                  start.minute, start.second],
        'advances': [cr.pick([0, 1, 1, 59, 61, 3600, 86399, 90000])
                     for _ in range(7)],
        'slots': slots, 'slot_days': 40,
        'jitter': [cr.randrange(0, 86400) for _ in range(n_eval + 2)],
        # time of day of each evaluation: often the last second of a day,
        # with a sub-second fraction (the clock has microsecond resolution)
        'tod': [cr.pick([None, None, [23, 59, 59, cr.randrange(500000, 10**6)],
                         [23, 59, 59, cr.randrange(0, 500000)],
                         [23, 59, 58, cr.randrange(0, 10**6)],
                         [0, 0, 0, cr.randrange(0, 10**6)]])
                for _ in range(n_eval + 2)],
        'micro': cr.randrange(0, 10**6),
    }
    out = {'prop': ID, 'seed': seed, 'tier': tier, 'world': world,
           'schedule': s, 'exes': exes, 'steps': steps, 'clock': clock,
           'np_seed': Rng(seed, 'np').randrange(1 << 32)}
    fr = Rng(seed, 'force')
    if n_eval and fr.chance(.2):
        # once per run the generator is made to deliver its extreme draws
        out['force_draw'] = {'eval': fr.randrange(n_eval),
                             'value': fr.pick(['top', 'top', 'zero'])}
    return out


def free_slot(world, book=None):
    idx = Index(world)
    for b, bk in enumerate(world['books']):
        if book is not None and b != book:
            continue
        for s, (h, w) in enumerate(bk):
            for r in range(h):
                for c in range(w):
                    if idx.occupant((b, s, r, c)) is None:
                        return [b, s, r, c]
    b = book or 0
    world['books'][b][0][0] += 1
    return [b, 0, world['books'][b][0][0] - 1, 0]


# ------------------------------------------------------------------- execute
class Exe:
    def __init__(self, kind, obj, meta=None):
        self.kind, self.obj, self.meta = kind, obj, meta or {}
        self.prev = None      # previous observation (normalised)
        self.evals = 0


def num(tag):
    return float(tag[2:]) if tag.startswith('n:') else None


SECOND = 1.0 / 86400


def close(a, b, tol=0.0):
    """Nested normalised lists equal up to TOL (+ tol) on numbers."""
    if a == b:
        return True
    if a == MISSING or b == MISSING or len(a) != len(b):
        return False
    for ra, rb in zip(a, b):
        if len(ra) != len(rb):
            return False
        for x, y in zip(ra, rb):
            if x == y:
                continue
            fx, fy = num(x), num(y)
            if fx is None or fy is None or abs(fx - fy) > tol + TOL * max(
                    1.0, abs(fx) / 1e5):
                return False
    return True


def subst(e, table):
    """Replace volatile call nodes (by identity) with literals."""
    for k, (node, lit) in enumerate(table):
        if e is node:
            return lit
    if e[0] in ('op', 'f'):
        return e[:2] + [subst(x, table) for x in e[2:]]
    return e


def execute(trace, env=None):
    from formulas import ExcelModel, Parser
    from formulas.ranges import Ranges
    world, s = trace['world'], trace['schedule']
    P = Placement(s['placement'])
    log = EventLog()
    stats = {'evaluations': {}, 'clock_reads': 0, 'sim_time_covered_s': 0,
             'clock_cells_checked': 0, 'rand_fresh_checked': 0,
             'range_checked': 0, 'snapshot_checked': 0,
             'crossed_midnight_inside_eval': 0, 'backward_jumps': 0,
             'rng_words': 0}
    viol = []

    def fail(clause, detail, **kw):
        v = {'clause': clause, 'detail': detail}
        v.update(kw)
        viol.append(v)

    ck = trace['clock']
    start = dt.datetime(*ck['start'])
    clock = SimClock(start, ck['advances']).install()
    seed_numpy(trace['np_seed'])
    fp = FixedPoint(world, s['placement'])
    try:
        try:
            if s['kind'] == 'dict':
                model = build_dict_model(world, s['placement'], s.get('order'),
                                         log=log)
            else:
                model, disk = build_file_model(world, s['placement'], s,
                                               log=log)
                disk.uninstall()
        except Exception as ex:
            import traceback
            fail('C13.load', 'load raised %r' % ex,
                 tb=traceback.format_exc()[-1500:])
            return result(trace, viol, log, stats, False)
        load_reads = len(clock.reads)
        # a model grown from a root book holds what the root references
        # (model.cells); blank fillers of cells never read are not observed
        root_loaded = list(model.cells) if s.get('mode') == 'root' else None
        if root_loaded is not None:
            # ... and every volatile cell that a loaded cell reads must have
            # been loaded as the formula it is (not lost, not replaced by a
            # value stored in the file)
            from ..expr import refs_of, rect_cells
            idx_ = Index(world)
            have = set(root_loaded)
            for i, c in enumerate(world['cells']):
                if 'f' not in c or P.rect_id(*cell_rect(c)) not in have:
                    continue
                for x in refs_of(c['f']):
                    if x[0] != 'r':
                        continue    # (names of lazily loaded books are not
                        #             completed by finish(): not demanded)
                    for q in rect_cells(x):
                        o = idx_.occupant(q)
                        if o is None:
                            continue
                        co = world['cells'][o]
                        if 'f' in co and sites(co['f']) and \
                                P.rect_id(*cell_rect(co)) not in have:
                            fail('C13.load', 'cell %d is loaded but the '
                                 'volatile cell %d it reads is not a cell of '
                                 'the model' % (i, o), cell=i)
        exes = {0: Exe('model', model)}
        n_eval = 0
        nontrivial = False
        for step in trace['steps']:
            j = step['exe']
            spec = trace['exes'][j]
            if step['do'] == 'make':
                try:
                    exes[j] = make_exe(world, P, s, spec, exes, fp)
                    log.add('env', 'make', exe=j, kind=spec['kind'])
                except Exception as ex:
                    # compile() may legitimately refuse (C08 territory);
                    # recorded, not judged
                    exes[j] = None
                    log.add('env', 'make-failed', exe=j, kind=spec['kind'],
                            err=type(ex).__name__)
                continue
            exe = exes.get(j)
            if exe is None:
                continue
            # environment actor: move the clock to a day never used before
            slot = ck['slots'][n_eval % len(ck['slots'])]
            target = start + dt.timedelta(
                days=ck['slot_days'] * (slot + 1),
                seconds=ck['jitter'][n_eval % len(ck['jitter'])],
                microseconds=ck.get('micro', 0))
            tod = (ck.get('tod') or [None])[n_eval % len(ck.get('tod') or
                                                          [None])]
            if tod:
                target = target.replace(hour=tod[0], minute=tod[1],
                                        second=tod[2], microsecond=tod[3])
            if target < clock.now:
                stats['backward_jumps'] += 1
            stats['sim_time_covered_s'] += int(abs(
                (target - clock.now).total_seconds()))
            clock.now = target
            n_eval += 1
            fd, edited = trace.get('force_draw'), None
            if fd and fd['eval'] == n_eval - 1:
                from ..seams import force_draws, unforce_draws
                edited = force_draws(fd['value'])
                stats['forced_draw_evaluations'] = stats.get(
                    'forced_draw_evaluations', 0) + 1
                stats.setdefault('forced_draw_kinds', {})[fd['value']] = 1
                log.add('env', 'force-draws', value=fd['value'])
            r0 = len(clock.reads)
            w0 = numpy_pos()
            try:
                obs = evaluate(world, P, s, exe, fp, root_loaded)
            except Exception as ex:
                import traceback
                fail('C13.eval', 'evaluation of %s raised %r' % (
                    exe.kind, ex), tb=traceback.format_exc()[-1500:])
                continue
            finally:
                if edited:
                    unforce_draws(edited)
            reads = clock.reads[r0:]
            stats['clock_reads'] += len(reads)
            if reads:
                stats['sim_time_covered_s'] += int(
                    (clock.now - reads[0]).total_seconds())
                if len({t.date() for t in reads}) > 1:
                    stats['crossed_midnight_inside_eval'] += 1
            if numpy_pos() != w0:
                stats['rng_words'] += 1
            stats['evaluations'][exe.kind] = \
                stats['evaluations'].get(exe.kind, 0) + 1
            log.add('client', 'eval', exe=j, kind=exe.kind,
                    reads=[str(t) for t in reads])
            judge(world, exe, obs, reads, fp, fail, stats, j)
            if exe.evals >= 1 and any(
                    'f' in c and sites(c['f']) for c in world['cells']):
                nontrivial = True
            exe.evals += 1
        if len(clock.reads) > load_reads + stats['clock_reads']:
            pass
    finally:
        clock.uninstall()
    return result(trace, viol, log, stats, nontrivial)


def make_exe(world, P, s, spec, exes, fp):
    import dill
    from formulas import ExcelModel
    k = spec['kind']
    if k == 'formula':
        i = spec['cell']
        c = world['cells'][i]
        text = fp.R.formula(c['f'], (c['at'][0], c['at'][1]))
        from formulas import Parser
        func = Parser().ast(text)[1].compile()
        return Exe('formula', func, {'cell': i})
    src = exes[spec['src']]
    if src is None:
        raise RuntimeError('source executable unavailable')
    if k == 'todict':
        d = src.obj.to_dict()
        if spec.get('json', True):
            # "imported from JSON": through the text form, as the README does
            import json
            try:
                d = json.loads(json.dumps(d))
            except TypeError:
                pass    # not serialisable as it stands: C09's business
        return Exe('todict', ExcelModel().from_dict(d))
    if k == 'compile':
        ins = [P.rect_id(*cell_rect(world['cells'][i]))
               for i in spec['inputs']]
        outs = [i for i, c in enumerate(world['cells']) if 'f' in c]
        if spec.get('outputs') is not None:
            outs = [i for i in spec['outputs'] if i in outs] or outs
        okeys = [P.rect_id(*cell_rect(world['cells'][i])) for i in outs]
        okeys += [P.vname_id(n['b'], k)
                  for k, n in enumerate(world.get('vnames', []))]
        func = src.obj.compile(ins, okeys)
        return Exe('compile', func, {'inputs': spec['inputs'], 'outputs': outs,
                                     'okeys': okeys})
    if k in ('deepcopy', 'dill'):
        obj = copy.deepcopy(src.obj) if k == 'deepcopy' else \
            dill.loads(dill.dumps(src.obj))
        kind = {'model': k, 'todict': k, 'deepcopy': k, 'dill': k}.get(
            src.kind, '%s-of-%s' % (k, src.kind))
        return Exe(kind, obj, dict(src.meta, base=src.kind if src.kind in (
            'compile', 'formula') else src.meta.get('base')))
    raise ValueError(k)


def base_kind(exe):
    if exe.kind in ('compile', 'formula'):
        return exe.kind
    return exe.meta.get('base') or 'model'


def evaluate(world, P, s, exe, fp, loaded=None):
    """-> Observation (cells not produced by this executable are missing)."""
    from formulas.ranges import Ranges
    bk = base_kind(exe)
    if bk == 'model':
        return Observation(world, s['placement'], exe.obj.calculate(), loaded)
    consts = {P.rect_id(*cell_rect(c)): c['v']
              for c in world['cells'] if 'v' in c}
    if bk == 'compile':
        args = [world['cells'][i]['v'] for i in exe.meta['inputs']]
        res = exe.obj(*args)
        if not isinstance(res, (list, tuple)):
            res = [res]
        sol = dict(consts)
        for key, v in zip(exe.meta['okeys'], res):
            sol[key] = v
        # (root-book schedules: blank fillers of cells never read are nodes
        # of the model and may be outputs of the function - not observed)
        return Observation(world, s['placement'], sol, loaded)
    # single formula: arguments are the stored constants (blank otherwise)
    i = exe.meta['cell']
    c = world['cells'][i]
    table = fp.ref_table(c['f'])
    import schedula as sh
    consts = dict(consts)
    for k2, c2 in enumerate(world['cells']):
        if 'f' in c2 and 'arr' not in c2 and k2 != i:
            consts[P.rect_id(*cell_rect(c2))] = sh.EMPTY
    base = Observation(world, s['placement'], consts)
    args = []
    for key in exe.obj.inputs:
        x = table[key]
        ref = x if x[0] == 'r' else world['names'][x[1]]['t']
        val = base.rect(ref)
        if val is None:   # refers to a formula cell: fed as blank
            import schedula as sh
            val = np.empty((ref[5] - ref[3] + 1, ref[6] - ref[4] + 1), object)
            val[:] = sh.EMPTY
            for r in range(ref[3], ref[5] + 1):
                for col in range(ref[4], ref[6] + 1):
                    v = base.at((ref[1], ref[2], r, col))
                    if v is not None:
                        val[r - ref[3], col - ref[4]] = v
        args.append(Ranges().push(P.rect_id(*ref[1:]), val))
    res = exe.obj(*args)
    from formulas.functions import replace_empty
    out = Ranges().push(P.rect_id(*cell_rect(c)), replace_empty(res))
    sol = dict(consts)
    sol[P.rect_id(*cell_rect(c))] = out
    o = Observation(world, s['placement'], sol)
    o.formula_only = i
    o.formula_args = args
    return o


def volatile_dependents(world):
    """Cells that depend, directly or transitively, on a cell or name with a
    volatile site (those cells excluded)."""
    from ..expr import rect_cells
    idx = Index(world)
    src = {i for i, c in enumerate(world['cells'])
           if 'f' in c and sites(c['f'])}
    deps = {}
    uses_vn = set()
    for i, c in enumerate(world['cells']):
        d = set()
        if 'f' in c:
            for x in walk(c['f']):
                if x[0] == 'vn':
                    uses_vn.add(i)
                elif x[0] in ('r', 'nm'):
                    r = x if x[0] == 'r' else world['names'][x[1]]['t']
                    for p in rect_cells(r):
                        o = idx.occupant(p)
                        if o is not None:
                            d.add(o)
        deps[i] = d
    out = set(uses_vn)
    changed = True
    while changed:
        changed = False
        for i, d in deps.items():
            if i not in out and i not in src and d & (out | src):
                out.add(i)
                changed = True
    return out - src


def judge(world, exe, obs, reads, fp, fail, stats, j):
    normal = obs.normal(names=False)
    vdeps = volatile_dependents(world)
    only = getattr(obs, 'formula_only', None)
    serial_now = [excel_serial(t) for t in reads]
    serial_today = [excel_serial(t, False) for t in reads]
    prev = exe.prev
    for i, c in enumerate(world['cells']):
        if 'f' not in c or (only is not None and i != only):
            continue
        got = normal['c%d' % i]
        if got == MISSING:
            continue
        cs, rs = clock_sites(c['f']), rand_sites(c['f'])
        if not cs and not rs:
            # C13.snapshot speaks about DEPENDENTS of volatile cells; what a
            # compiled function returns for other cells is C08's business
            if only is None and i in vdeps:
                # C13.snapshot: dependents equal h(observed inputs)
                st, exp = fp.expected(i, obs)
                if st == 'ok':
                    stats['snapshot_checked'] += 1
                    if not close(exp, got):
                        fail('C13.snapshot', 'exe %d (%s): cell %d = %s but '
                             'its formula on the observed values gives %s' % (
                                 j, exe.kind, i, got, exp), cell=i, exe=j)
            continue
        if rs:
            judge_rand(world, exe, i, c, got, prev, fail, stats, j)
            continue
        # C13.fresh.clock: value == g(t) for readings t of THIS evaluation
        if len(cs) > 2:
            continue
        pools = []
        for node in cs:
            pool = serial_now if node[1] == 'NOW' else serial_today
            pools.append(sorted(set(pool)) or [36526.25, 51544.75])
        ok = False
        results = []
        for combo in itertools.product(*pools):
            table = [(node, ['n', v]) for node, v in zip(cs, combo)]
            st, exp = expected_with(fp, world, i, subst(c['f'], table), obs)
            if st != 'ok':
                ok = True   # oracle cannot evaluate: nothing demanded
                break
            results.append(exp)
            if close(exp, got, SECOND):
                ok = True
                if serial_now:
                    break
        if not serial_now and results:
            # no clock reading in this evaluation: only a g that is constant
            # in t may have a value at all
            ok = all(close(r, got, SECOND) for r in results)
        stats['clock_cells_checked'] += 1
        if not ok:
            fail('C13.fresh.clock', 'exe %d (%s), evaluation %d: cell %d = %s '
                 'is not its formula at any clock reading of this evaluation '
                 '(readings %s -> %s)' % (
                     j, exe.kind, exe.evals, i, got,
                     [str(t) for t in reads][:4], results[:3]),
                 cell=i, exe=j, kind=exe.kind)
    # defined names holding a volatile formula
    for k, n in enumerate(world.get('vnames', [])):
        if only is not None:
            break
        raw = obs.vnames.get(k)
        if raw is None:
            continue
        got = norm_value(raw)
        cs, rs = clock_sites(n['f']), rand_sites(n['f'])
        key = 'vn%d' % k
        if rs:
            if prev is not None and prev.get(key) is not None:
                stats['rand_fresh_checked'] += 1
                if prev[key] == got:
                    fail('C13.fresh.rand', 'exe %d (%s): name VOL_%s returned '
                         '%s in two consecutive evaluations' % (
                             j, exe.kind, chr(65 + k), got), exe=j,
                         kind=exe.kind, fn=rs[0][1])
        elif cs and len(cs) <= 2:
            pools = []
            for node in cs:
                pool = serial_now if node[1] == 'NOW' else serial_today
                pools.append(sorted(set(pool)) or [36526.25, 51544.75])
            ok, results = False, []
            for combo in itertools.product(*pools):
                table = [(node, ['n', v]) for node, v in zip(cs, combo)]
                st, res = fp.eval_expr(subst(n['f'], table), (n['b'], 0), obs)
                if st != 'ok':
                    ok = True
                    break
                res = norm_value(res)
                results.append(res)
                if close(res, got, SECOND):
                    ok = True
                    if serial_now:
                        break
            if not serial_now and results:
                ok = all(close(r, got, SECOND) for r in results)
            stats['clock_cells_checked'] += 1
            if not ok:
                fail('C13.fresh.clock', 'exe %d (%s), evaluation %d: name '
                     'VOL_%s = %s is not its formula at any clock reading of '
                     'this evaluation (readings %s -> %s)' % (
                         j, exe.kind, exe.evals, chr(65 + k), got,
                         [str(t) for t in reads][:4], results[:3]),
                     exe=j, kind=exe.kind)
        normal[key] = got
    exe.prev = normal


def expected_with(fp, world, i, expr, obs):
    """fp.expected for cell i with its formula replaced by ``expr``."""
    c = world['cells'][i]
    saved = c['f']
    c['f'] = expr
    try:
        return fp.expected(i, obs)
    finally:
        c['f'] = saved


def judge_rand(world, exe, i, c, got, prev, fail, stats, j):
    f = c['f']
    flat = [x for row in got for x in row]
    # C13.range on bare calls
    if f[0] == 'f' and f[1] == 'RAND':
        stats['range_checked'] += 1
        v = num(flat[0])
        if v is None or not (0 <= v < 1):
            fail('C13.range', 'exe %d (%s): RAND() = %s' % (
                j, exe.kind, flat[0]), cell=i, exe=j, kind=exe.kind)
    if f[0] == 'f' and f[1] == 'RANDBETWEEN':
        stats['range_checked'] += 1
        import math
        lo, hi = f[2][1], f[3][1]
        v = num(flat[0])
        if math.ceil(lo) > math.floor(hi):
            bad = not flat[0].startswith('e:')   # no integer in between
        else:
            bad = v is None or v != int(v) or not (lo <= v <= hi)
        if bad:
            fail('C13.range', 'exe %d (%s): RANDBETWEEN(%s,%s) = %s' % (
                j, exe.kind, lo, hi, flat[0]), cell=i, exe=j, kind=exe.kind,
                 fn='RANDBETWEEN')
    # C13.fresh.rand: injective forms differ between consecutive evaluations
    small = any(x[1] == 'RANDBETWEEN' and x[3][1] - x[2][1] < BIG
                for x in rand_sites(f))
    if prev is not None and not small:
        before = prev.get('c%d' % i)
        # (an error value - e.g. an operand that is #NUM! - hides the site:
        # nothing is demanded then)
        # (next to 2**53 a draw from [0,1) no longer shows in the sum)
        if before is not None and before != MISSING and \
                all(num(x) is not None and abs(num(x)) < 2 ** 40
                    for x in flat):
            stats['rand_fresh_checked'] += 1
            if before == got:
                fail('C13.fresh.rand', 'exe %d (%s): cell %d returned %s in '
                     'two consecutive evaluations' % (j, exe.kind, i, got),
                     cell=i, exe=j, kind=exe.kind,
                     fn=rand_sites(f)[0][1])


def result(trace, viol, log, stats, nontrivial):
    return {'violations': viol, 'outcome': 'n/a', 'events': log.digest(),
            'stats': stats, 'nontrivial': nontrivial,
            'case_key': digest([trace['world'], trace['schedule'],
                                trace['exes'], trace['steps'],
                                trace['clock']])}


def signature(trace, v):
    return None


def sample(trace):
    return {'workbook': dict(dict_items(trace['world'],
                                        trace['schedule']['placement'])),
            'load': {k: v for k, v in trace['schedule'].items()
                     if k != 'placement'},
            'executables': trace['exes'], 'steps': trace['steps'],
            'clock': trace['clock']}


def shrink_candidates(trace):
    steps = trace['steps']
    for k in reversed(range(len(steps))):
        if steps[k]['do'] == 'eval':
            t = copy.deepcopy(trace)
            del t['steps'][k]
            yield 'drop step %d' % k, t
    # drop an executable nobody evaluates any more (keep indices stable:
    # only the last one)
    used = {x['exe'] for x in steps if x['do'] == 'eval'}
    used |= {trace['exes'][j].get('src') for j in used}
    last = len(trace['exes']) - 1
    if last > 0 and last not in used:
        t = copy.deepcopy(trace)
        del t['exes'][last]
        t['steps'] = [x for x in t['steps'] if x['exe'] != last]
        yield 'drop executable %d' % last, t
    world = trace['world']
    for desc, w, meta in shrinkers.world_candidates(world, keep_formula=True):
        if desc.startswith('drop cell'):
            if desc != 'drop cell %d' % (len(world['cells']) - 1):
                continue
            if any(e.get('cell') == len(world['cells']) - 1 or
                   len(world['cells']) - 1 in e.get('inputs', [])
                   for e in trace['exes']):
                continue
        if 'dropped_name' in meta and \
                meta['dropped_name'] != len(world['names']) - 1:
            continue
        if not any('f' in c and sites(c['f']) for c in w['cells']):
            continue
        bad = False
        for e in trace['exes']:
            for i in e.get('inputs', []):
                if i >= len(w['cells']) or 'v' not in w['cells'][i]:
                    bad = True
            if 'cell' in e and (e['cell'] >= len(w['cells']) or
                                'f' not in w['cells'][e['cell']]):
                bad = True
        if bad:
            continue
        t = copy.deepcopy(trace)
        t['world'] = w
        t['schedule']['placement'] = shrinkers.fix_placement(
            t['schedule']['placement'], meta)
        n_items = len(w['cells']) + len(w['names'])
        if 'order' in t['schedule']:
            o = [x for x in t['schedule']['order'] if x < n_items]
            t['schedule']['order'] = o + [x for x in range(n_items)
                                          if x not in o]
        yield desc, t
    for desc, p in shrinkers.placement_candidates(
            world, trace['schedule']['placement']):
        t = copy.deepcopy(trace)
        t['schedule']['placement'] = p
        yield desc, t
    if trace['clock']['advances'] != [1]:
        t = copy.deepcopy(trace)
        t['clock']['advances'] = [1]
        yield 'clock advances 1 s per read', t
