"""C10 - circular references: termination, isolation and exact marking.

Two kinds of run (decided by the seed):
  world  a workbook on a random cyclic dependency graph, built along several
         schedules (dictionary order, placement, file path) with
         finish(circular=True), judged clause by clause;
  graph  formulas.excel.cycle.simple_cycles against a brute-force enumerator:
         a slice of ALL digraphs on <= 4 nodes (self-loops included) under
         several adjacency insertion orders and container types, plus random
         graphs with 5-9 nodes.
"""
import copy
import itertools

from ..rng import Rng, digest
from ..world import (gen_world, gen_placement, identity_placement, profile,
                     dict_items, Index)
from ..oracle import Observation, FixedPoint
from ..harness import EventLog, build_dict_model, build_file_model
from ..values import MISSING
from ..refcalc import RefCalc, INDET, E
from ..cyc import Graph, Selection, brute_cycles, canon_cycle
from ..seams import StepBudget, StepBudgetExceeded
from .. import shrinkers

ID = 'C10'
LEVEL = 'exploration'
STEP_CAP = 5_000_000
GRAPH_EVERY = 16         # run i is a graph run iff i % GRAPH_EVERY == 15
SLICES = 16              # the 65 536 four-node digraphs are cut in 16 slices

TIERS = {
    'quick': dict(max_cells=9, n_sched=4, win=3),
    'thorough': dict(max_cells=12, n_sched=6, win=4),
}
RULE = ('World run: a workbook of 2-9 (thorough 12) cells on a random cyclic '
        'dependency graph (edges through +, SUM ranges, defined names, IF '
        'guards = strict; IF/IFS branches, IFERROR/IFNA fallbacks = lazy), '
        'loaded with finish(circular=True) along 3-4 schedules (dictionary '
        'item order, two-stage builds each closed with '
        'finish(circular=True), placement = translation + renaming, file '
        'path; 4 % of the worlds run a cycle through a spill reference B1#, '
        'file path only) in 2 '
        '(quick) / 4 (thorough) PYTHONHASHSEED interpreters; non-trivial: '
        'the world has >= 1 static cycle and >= 2 schedules ran; distinct by '
        '(world, schedules) digest. Graph run (every 16th): one of 16 slices '
        'of all 65 536 digraphs on 4 nodes + all digraphs on <= 3 nodes + 40 '
        'random graphs with 5-9 nodes, each under 3 insertion orders, '
        'simple_cycles vs brute force; counted in stats.graphs_checked.')
ASSUMPTIONS = [
    'the reference evaluator RefCalc defines lazy evaluation on the C10 '
    'vocabulary (numbers, + - *, comparisons, SUM/MAX/MIN/COUNT, IF, IFS, '
    'IFERROR, IFNA, ISERROR); it is validated against the library on the '
    'acyclic part of every world (clause isolation)',
    'a step budget of 5M PY_START+JUMP events stands for "does not terminate"',
    'sampling, not enumeration, except the <=4-node cycle-analysis sub-batch '
    'which is exhaustive once all 16 slices have run (stats.slices)',
]


def is_graph_run(seed):
    return (seed & 0xFFFFFF) % GRAPH_EVERY == GRAPH_EVERY - 1


# ------------------------------------------------------------------ generate
def generate(seed, tier):
    if is_graph_run(seed):
        return gen_graph_trace(seed, tier)
    t = TIERS[tier]
    rng = Rng(seed, 'world')
    sw = Rng(seed, 'swarm')
    prof = profile(
        win=t['win'], max_cells=t['max_cells'], min_cells=2,
        max_books=sw.pick([1, 1, 1, 2]), max_sheets=sw.pick([1, 1, 2]),
        p_arr=0, p_name=sw.pick([0, .15]), p_cross=.4, p_text=0, p_bool=0,
        p_err=0, p_frac=0, p_formula=.8, depth=sw.pick([1, 2, 2]),
        p_back=sw.pick([.25, .4, .6]),
        w_ref=5, w_num=1, w_op=4, w_aggr=sw.pick([0, 3, 5]),
        w_if=sw.pick([0, 3, 5]), w_iferror=sw.pick([0, 0, 2]),
        w_iserror=0, w_name=1.5, w_ifs=sw.pick([0, 0, 2]),
        w_ifna=sw.pick([0, 0, 1]),
    )
    world = gen_world(rng, prof)
    if sw.chance(.5):
        world = gen_motif_world(Rng(seed, 'motif'), tier)
    if sw.chance(.06):
        world = gen_lattice_world(Rng(seed, 'lattice'), tier)
    if sw.chance(.05):
        world = gen_chord_world(Rng(seed, 'chord'), tier)
    spill = sw.chance(.04)
    if spill:
        world = gen_spill_world(Rng(seed, 'spill'), tier)
    srng = Rng(seed, 'sched')
    n_items = len(world['cells']) + len(world['names'])
    scheds = []
    # Two placements (identity + one translation / renaming); the schedules
    # alternate between them.  C10 promises independence of CELL ORDER and
    # HASH SEED, so outcomes are compared between schedules of one placement
    # and between hash seeds - not between placements: which of several
    # equally good cycles is cut is decided by node names.
    pls = [identity_placement(world),
           gen_placement(Rng(seed, 'place/1'), world)]
    for k in range(t['n_sched']):
        pl = pls[k % 2]
        kind = 'dict' if k == 0 or srng.chance(.7) else 'file'
        if spill:
            kind = 'file'
        s = {'kind': kind, 'placement': pl}
        if kind == 'dict':
            s['order'] = list(range(n_items)) if k == 0 else srng.perm(n_items)
            if k and n_items > 2 and srng.chance(.35):
                # built in two stages (see harness.build_dict_model)
                s['split'] = srng.randrange(1, n_items)
                s['mid_calc'] = srng.chance(.5)
        else:
            s['mode'] = 'loads'
            s['book_order'] = srng.perm(len(world['books']))
            s['sheet_orders'] = {str(b): srng.perm(len(bk))
                                 for b, bk in enumerate(world['books'])}
            s['exec_seed'] = None
        scheds.append(s)
    return {'prop': ID, 'kind': 'world', 'seed': seed, 'tier': tier,
            'world': world, 'schedules': scheds}


def gen_motif_world(rng, tier):
    """Edge-first generator: pick cells, pick dependency edges (back edges
    included), give every edge a kind, and write each cell's formula as the
    sum of its edge terms.  Dense in overlapping cycles, cycles through
    ranges and names, guarded branches that are or are not selected, and
    error-absorbing positions - the structures the cycle breaker decides on."""
    h, w = rng.pick([(2, 3), (3, 3), (3, 4)] if tier == 'quick'
                    else [(3, 3), (3, 4), (4, 4)])
    world = {'books': [[[h, w]]], 'cells': [], 'names': []}
    slots = [(r, c) for r in range(h) for c in range(w)]
    rng.shuffle(slots)
    n = rng.randrange(2, 6 if tier == 'quick' else 8)
    ng = rng.randrange(1, 3)
    n = min(n, len(slots) - ng)
    cells = slots[:n]
    guards = slots[n:n + ng]
    gvals = [rng.pick([0, 1, 3, 5]) for _ in guards]

    def ref(p, q=None):
        q = q or p
        return ['r', 0, 0, min(p[0], q[0]), min(p[1], q[1]),
                max(p[0], q[0]), max(p[1], q[1])]

    def rect_around(p):
        r1, c1, r2, c2 = p[0], p[1], p[0], p[1]
        for _ in range(rng.randrange(1, 3)):
            d = rng.randrange(4)
            if d == 0 and r1 > 0:
                r1 -= 1
            elif d == 1 and r2 < h - 1:
                r2 += 1
            elif d == 2 and c1 > 0:
                c1 -= 1
            elif d == 3 and c2 < w - 1:
                c2 += 1
        return ['r', 0, 0, r1, c1, r2, c2]

    def guard():
        g = rng.randrange(len(guards))
        return ['op', '>', ref(guards[g]), ['n', rng.pick([0, 2, 4])]]

    names = []

    def term(v):
        k = rng.weighted([('strict', 3), ('range', 2.5), ('if_then', 2),
                          ('if_else', 2), ('if_range', 2), ('ifs', .7),
                          ('iferror_fb', 1), ('iferror_val', .8),
                          ('ifna_fb', .4), ('iserror', .6), ('count', .8),
                          ('name', .8), ('guard', .6), ('if_nested', 1),
                          ('ifs2', .6), ('ifs_cond', 1)])
        if k == 'strict':
            return ref(v)
        if k == 'range':
            return ['f', rng.pick(['SUM', 'SUM', 'MAX', 'MIN']),
                    rect_around(v)]
        if k == 'if_then':
            return ['f', 'IF', guard(), ref(v), ['n', rng.randrange(0, 4)]]
        if k == 'if_else':
            return ['f', 'IF', guard(), ['n', rng.randrange(0, 4)], ref(v)]
        if k == 'if_nested':
            inner = ['f', 'IF', guard(), ref(v), ['n', 1]]
            return ['f', 'IF', guard()] + ([inner, ['n', 2]] if rng.chance(.5)
                                           else [['n', 2], inner])
        if k == 'ifs_cond':   # the dependency sits in a LATER condition
            return ['f', 'IFS', guard(), ['n', rng.randrange(1, 5)],
                    ['op', '>', ref(v), ['n', rng.pick([0, 2, 4])]], ['n', 5],
                    ['b', True], ['n', 6]]
        if k == 'ifs2':
            return ['f', 'IFS', guard(), ['n', 1], guard(), ref(v),
                    ['b', True], ['n', 3]]
        if k == 'if_range':
            a, b = ['f', 'SUM', rect_around(v)], ['n', 1]
            return ['f', 'IF', guard()] + ([a, b] if rng.chance(.5)
                                           else [b, a])
        if k == 'ifs':
            return ['f', 'IFS', guard(), ref(v), ['b', True], ['n', 2]]
        if k == 'iferror_fb':
            return ['f', 'IFERROR', rng.pick([['n', 1], ['e', '#N/A']]),
                    ref(v)]
        if k == 'ifna_fb':
            return ['f', 'IFNA', rng.pick([['n', 1], ['e', '#N/A']]), ref(v)]
        if k == 'iferror_val':
            return ['f', 'IFERROR', ref(v), ['n', rng.randrange(0, 4)]]
        if k == 'iserror':
            return ['op', '+', ['f', 'ISERROR', ref(v)], ['n', 0]]
        if k == 'count':
            return ['f', 'COUNT', rect_around(v)]
        if k == 'guard':    # the guard of an IF depends on v (strict)
            return ['f', 'IF', ['op', '>', ref(v), ['n', 2]], ['n', 1],
                    ['n', 2]]
        names.append({'b': 0, 't': ref(v), 'avail': 0})
        return ['nm', len(names) - 1]

    for g, val in zip(guards, gvals):
        world['cells'].append({'at': [0, 0, g[0], g[1]], 'v': val})
    for u in cells:
        deps = [rng.pick(cells) for _ in range(rng.weighted(
            [(0, 1), (1, 5), (2, 4), (3, 1.5)]))]
        terms = [term(v) for v in deps]
        if not terms:
            world['cells'].append({'at': [0, 0, u[0], u[1]],
                                   'v': rng.randrange(0, 6)})
            continue
        f = terms[0]
        for t2 in terms[1:]:
            f = ['op', rng.pick(['+', '+', '-', '*']), f, t2]
        world['cells'].append({'at': [0, 0, u[0], u[1]], 'f': f})
    world['names'] = names[:8]
    # names beyond the pool are inlined
    def fix(e):
        if e[0] == 'nm' and e[1] >= 8:
            return names[e[1]]['t']
        if e[0] in ('op', 'f'):
            return e[:2] + [fix(x) for x in e[2:]]
        return e
    for c in world['cells']:
        if 'f' in c:
            c['f'] = fix(c['f'])
    return world


def gen_lattice_world(rng, tier):
    """A small cycle on top of a deep reconvergent (acyclic) lattice: every
    cell of a row reads two cells of the row above.  The cycle analysis must
    stay fast however many simple paths the acyclic region has."""
    n = rng.randrange(12, 22 if tier == 'quick' else 36)
    w = rng.pick([2, 2, 3])
    world = {'books': [[[n, w]]], 'cells': [], 'names': []}

    def ref(r, c):
        return ['r', 0, 0, r, c, r, c]
    top = rng.randrange(3)
    for c in range(w):
        if top == 0:      # unavoidable 2-cycle (plus a constant column)
            f = ['op', '+', ref(0, (c + 1) % 2), ['n', 1]] if c < 2 else None
        elif top == 1:    # guarded cycle, branch not selected
            f = ['f', 'IF', ['op', '>', ['n', 0], ['n', 1]],
                 ref(0, (c + 1) % 2), ['n', c + 1]] if c < 2 else None
        else:             # self loop through a range
            f = ['f', 'SUM', ['r', 0, 0, 0, 0, 0, w - 1]] if c == 0 else None
        cell = {'at': [0, 0, 0, c]}
        if f is None:
            cell['v'] = c + 1
        else:
            cell['f'] = f
        world['cells'].append(cell)
    for r in range(1, n):
        for c in range(w):
            world['cells'].append({'at': [0, 0, r, c], 'f': [
                'op', rng.pick(['+', '+', '-']), ref(r - 1, c),
                ref(r - 1, (c + 1) % w)]})
    return world


def gen_chord_world(rng, tier):
    """One formula on two cycles: one closes through a branch of its own IF,
    the other through a plain operand and is guarded in ANOTHER cell.  The cut
    search asks the formula about the unguarded cycle first and about its own
    branch later (or the other way round, depending on names)."""
    h, w = 3, 4
    world = {'books': [[[h, w]]], 'cells': [], 'names': []}
    slots = [(r, c) for r in range(h) for c in range(w)]
    rng.shuffle(slots)
    g1, g2, b1, x1, y1, z1, d1 = slots[:7]

    def ref(p):
        return ['r', 0, 0, p[0], p[1], p[0], p[1]]

    def guarded(g, val, dep):
        closed = ['f', 'IF', ['op', '>', ref(g), ['n', 0]], ['n', val], dep]
        k = rng.randrange(4)
        if k == 0:
            return ['f', 'IF', ['op', '>', ref(g), ['n', 0]], dep, ['n', val]]
        if k == 1:
            return ['f', 'IFERROR', ['f', 'IF', ['op', '>', ref(g), ['n', 0]],
                                     ['n', val], ['e', '#N/A']], dep]
        return closed
    world['cells'].append({'at': [0, 0, g1[0], g1[1]],
                           'v': rng.pick([0, 1, 1, 2])})
    world['cells'].append({'at': [0, 0, g2[0], g2[1]],
                           'v': rng.pick([0, 1, 1, 2])})
    own = guarded(g1, 5, ref(y1))
    other = ref(x1)
    f = ['op', rng.pick(['+', '-', '*']), own, other] if rng.chance(.6) \
        else ['f', 'SUM', own, other] if rng.chance(.5) \
        else ['op', '+', other, own]
    world['cells'].append({'at': [0, 0, b1[0], b1[1]], 'f': f})
    world['cells'].append({'at': [0, 0, x1[0], x1[1]],
                           'f': guarded(g2, 1, ref(b1))})
    world['cells'].append({'at': [0, 0, y1[0], y1[1]],
                           'f': ['op', '+', ref(z1), ['n', 1]]})
    world['cells'].append({'at': [0, 0, z1[0], z1[1]],
                           'f': ['op', '+', ref(b1), ['n', 1]]})
    world['cells'].append({'at': [0, 0, d1[0], d1[1]],
                           'f': ['op', '*', ref(b1), ['n', 2]]})
    return world


def gen_spill_world(rng, tier):
    """A cycle that runs through a spill reference (B1#): the link from the
    array formula to its anchor node is a plain function of the dataflow
    graph, not a formula.  File path only (a dictionary has no anchors)."""
    world = {'books': [[[4, 5]]], 'cells': [], 'names': []}
    guard = rng.randrange(3)

    def ref(r, c, r2=None, c2=None):
        return ['r', 0, 0, r, c, r if r2 is None else r2,
                c if c2 is None else c2]
    back = ['f', 'SUM', ['an', 0, 0, 0, 1]]
    if guard == 1:      # branch not selected
        back = ['f', 'IF', ['op', '>', ref(1, 0), ['n', 5]], back, ['n', 1]]
    elif guard == 2:    # branch selected
        back = ['f', 'IF', ['op', '>', ref(1, 0), ['n', 0]], back, ['n', 1]]
    else:
        back = ['op', '+', back, ['n', 1]]
    world['cells'].append({'at': [0, 0, 1, 0], 'v': rng.randrange(1, 5)})
    world['cells'].append({'at': [0, 0, 2, 0], 'v': rng.randrange(1, 5)})
    world['cells'].append({'at': [0, 0, 0, 0], 'f': back})
    world['cells'].append({'at': [0, 0, 0, 1], 'arr': [3, 1], 'f': [
        'op', '*', ref(0, 0, 2, 0), ['n', 2]]})
    world['cells'].append({'at': [0, 0, 0, 3], 'f': [
        'op', '+', ref(1, 0), ['n', 1]]})           # not downstream
    world['cells'].append({'at': [0, 0, 1, 3], 'f': [
        'op', '+', ref(1, 1), ['n', 1]]})           # reads a spill cell
    return world


def gen_graph_trace(seed, tier):
    rng = Rng(seed, 'graph')
    sl = ((seed & 0xFFFFFF) // GRAPH_EVERY) % SLICES
    names = rng.sample(['A1', 'B2', "'[a.xlsx]S1'!C3", 'x', 'A10', 'A2', 'Z9',
                        'node', "S!A1", 'B10', 'k1', 'k2'], 9)
    randoms = []
    for _ in range(40 if tier == 'quick' else 120):
        n = rng.randrange(5, 10)
        p = rng.pick([.15, .25, .4])
        randoms.append([[j for j in range(n) if rng.random() < p]
                        for i in range(n)])
    return {'prop': ID, 'kind': 'graph', 'seed': seed, 'tier': tier,
            'slice': sl, 'names': names, 'random': randoms,
            'order_seed': rng.randrange(1 << 30)}


# ------------------------------------------------------------------- execute
def execute(trace, env=None):
    if trace.get('kind') == 'graph':
        return execute_graph(trace)
    return execute_world(trace)


def graphs_of_slice(sl):
    """Adjacency lists of every digraph on <= 3 nodes and slice ``sl`` of the
    65 536 digraphs on 4 nodes."""
    for n in (1, 2, 3):
        for bits in range(1 << (n * n)):
            yield n, [[j for j in range(n) if bits >> (i * n + j) & 1]
                      for i in range(n)]
    per = (1 << 16) // SLICES
    for bits in range(sl * per, (sl + 1) * per):
        yield 4, [[j for j in range(4) if bits >> (i * 4 + j) & 1]
                  for i in range(4)]


def check_cycles(adj, names, order_rng, as_set):
    """Compare simple_cycles with brute force on one graph under one insertion
    order. -> None | description of the deviation."""
    from formulas.excel.cycle import simple_cycles
    n = len(adj)
    ids = [names[i] for i in range(n)]
    keys = list(range(n))
    order_rng.shuffle(keys)
    g = {}
    for i in keys:
        succ = [ids[j] for j in adj[i]]
        order_rng.shuffle(succ)
        g[ids[i]] = set(succ) if as_set else succ
    got = {}
    for c in simple_cycles(g):
        if len(set(c)) != len(c):
            return 'cycle %r repeats a node' % (c,)
        for a, b in zip(c, c[1:] + c[:1]):
            if b not in g[a]:
                return 'cycle %r uses a missing edge %r->%r' % (c, a, b)
        k = canon_cycle(c)
        got[k] = got.get(k, 0) + 1
    want = brute_cycles({ids[i]: [ids[j] for j in adj[i]] for i in range(n)})
    want = {canon_cycle(c): 1 for c in want}
    if got != want:
        miss = sorted(set(want) - set(got))[:3]
        extra = sorted(set(got) - set(want))[:3]
        dup = sorted(k for k, v in got.items() if v > 1)[:3]
        return 'graph %r: missing %r, spurious %r, reported twice %r' % (
            {ids[i]: [ids[j] for j in adj[i]] for i in range(n)},
            miss, extra, dup)
    return None


def execute_graph(trace):
    rng = Rng(trace['order_seed'], 'orders')
    names = trace['names']
    viol = []
    n_graphs = n_checks = n_cycles = 0
    budget = StepBudget(STEP_CAP * 40)
    budget.start()
    try:
        it = trace.get('graphs')
        if it is None:
            it = itertools.chain(
                graphs_of_slice(trace['slice']),
                ((len(a), a) for a in trace['random']))
        else:
            it = ((len(a), a) for a in it)
        for n, adj in it:
            n_graphs += 1
            for rep in range(3):
                n_checks += 1
                bad = check_cycles(adj, names, rng, as_set=rep != 1)
                if bad:
                    viol.append({'clause': 'C10.cycles', 'detail': bad,
                                 'graph': adj})
                    break
            if len(viol) >= 3:
                break
    except StepBudgetExceeded:
        viol.append({'clause': 'C10.term',
                     'detail': 'simple_cycles exceeded the step budget'})
    finally:
        budget.stop()
    return {
        'violations': viol, 'outcome': 'graph', 'events': digest(
            [trace['slice'], trace['order_seed'], n_graphs]),
        'stats': {'graph_runs': 1, 'graphs_checked': n_graphs,
                  'cycle_checks': n_checks,
                  'slices': {str(trace['slice']): 1}},
        'nontrivial': True,
        'case_key': digest(['graph', trace['slice'], trace['order_seed']]),
    }


def run_schedule(world, s, log, budget):
    pl = s['placement']
    budget.start()
    try:
        if s['kind'] == 'dict':
            m = build_dict_model(world, pl, s.get('order'), circular=True,
                                 log=log, split=s.get('split'),
                                 mid_calc=s.get('mid_calc', False))
        else:
            m, disk = build_file_model(world, pl, s, circular=True, log=log)
            disk.uninstall()
        log.add('client', 'calculate')
        sol = m.calculate()
    finally:
        steps = budget.stop()
    return Observation(world, pl, sol), steps


def judge(world, obs, placement, stats):
    """Clause-by-clause verdict on one observation -> list of violations."""
    G = Graph(world)
    normal = obs.normal(names=False)
    cycles = G.cycles()
    oncyc = G.on_cycle()
    viol = []
    n = len(world['cells'])
    rc = RefCalc(world, lazy=True)
    in_vocab = rc.in_vocabulary()
    fp = FixedPoint(world, placement)

    def tag(i):
        v = normal['c%d' % i]
        return v if v == MISSING else v[0][0]

    # a later IFS condition that IS evaluated (every earlier condition is
    # determinately false) is as strict as any other operand
    sel0 = Selection(world) if in_vocab else None

    def strict_edge(u, v):
        for o in G.edge[u][v]:
            if o['conds'] or (o['multi'] and not o['agg']):
                continue
            if not o['weak'] or (sel0 is not None and sel0.occurrence(
                    o['weak']) == 'selected'):
                return True
        return False

    strict_cycles = [c for c in cycles
                     if all(strict_edge(u, v) for u, v in G.cycle_edges(c))]
    on_strict = set()
    for c in strict_cycles:
        on_strict.update(c)
    stats['cells'] = stats.get('cells', 0) + n
    for i, c in enumerate(world['cells']):
        t = tag(i)
        reach = G.reach(i)
        # --- isolation: no path to any static cycle
        if not (reach & oncyc):
            stats['isolated_cells'] = stats.get('isolated_cells', 0) + 1
            if in_vocab:
                exp = rc.cell(i)
                if not RefCalc.agrees(exp, normal['c%d' % i]):
                    viol.append({
                        'clause': 'C10.isolation', 'cell': i,
                        'detail': 'cell %d is not downstream of any cycle; '
                                  'expected %s got %s' % (i, RefCalc.tag(exp),
                                                          t)})
            continue
        # --- strict: on an all-strict cycle => exactly #CIRC!
        if i in on_strict:
            stats['strict_cycle_cells'] = stats.get(
                'strict_cycle_cells', 0) + 1
            if t != 'e:#CIRC!':
                mine = [c for c in strict_cycles if i in c]
                viol.append({
                    'clause': 'C10.strict', 'cell': i, 'on_cycle': True,
                    'icpt': all(any(G.intercepted_strict(u, v) for u, v in
                                    G.cycle_edges(c)) for c in mine),
                    'detail': 'cell %d lies on the all-strict cycle %s but '
                              'reports %s' % (i, mine[0], t)})
            continue
        # --- strict: reaches an all-strict cycle through propagating edges
        preach = G.reach(i, 'prop')
        if preach & on_strict:
            stats['strict_dependents'] = stats.get('strict_dependents', 0) + 1
            if t == MISSING or not t.startswith('e:'):
                tgt = sorted(preach & on_strict)
                viol.append({
                    'clause': 'C10.strict', 'cell': i, 'on_cycle': False,
                    'icpt': all(any(G.intercepted_strict(u, v) for u, v in
                                    G.cycle_edges(c))
                                for c in strict_cycles if set(c) & preach),
                    'detail': 'cell %d depends strictly on the unavoidable '
                              'cycle through %s but reports %s' % (i, tgt, t)})
            continue
    # --- ordinary: every non-error reported value is a local fixed point
    ordinary = [i for i in range(n) if tag(i) != MISSING and
                not tag(i).startswith('e:') and 'f' in world['cells'][i]]
    bad, st = fp.check(obs, only=ordinary)
    stats['ordinary_checked'] = stats.get('ordinary_checked', 0) + \
        st['formula_checked']
    for i, what, exp, got in bad:
        if what in ('fixpoint', 'const'):
            viol.append({'clause': 'C10.ordinary', 'cell': i,
                         'absorb': absorbing_cycle(G, cycles, i),
                         'range_on_cycle': absorbs_range_on_cycle(G, i),
                         'detail': 'cell %d reports %s but its own formula on '
                                   'the reported values gives %s' % (
                                       i, got, exp)})
    for i in range(n):
        if tag(i) == MISSING:
            viol.append({'clause': 'C10.ordinary', 'cell': i,
                         'detail': 'cell %d has no value at all' % i})
    # --- resolve: cycles that close only through unselected lazy branches
    if in_vocab and cycles:
        sel = Selection(world)
        status = {}
        for ci, c in enumerate(cycles):
            lazy = [(u, v) for u, v in G.cycle_edges(c) if G.lazy(u, v)]
            if not lazy:
                status[ci] = 'unavoidable' if G.all_strict(c) else 'other'
                continue
            sts = [sel.edge(G.edge[u][v]) for u, v in lazy]
            # A cell-level edge may stand for several node-level cycles (the
            # same cell read both in a branch and, say, through a range): the
            # statement obliges only when NO branch on the cycle is selected,
            # so every lazy occurrence on every edge - also on edges that have
            # a strict occurrence as well - must be determinately unselected.
            stray = any(
                o['conds'] and sel.occurrence(o['conds']) != 'unselected'
                for u, v in G.cycle_edges(c) for o in G.edge[u][v])
            if all(s == 'unselected' for s in sts) and not stray:
                # the cycle is open at each lazy edge and no branch on it is
                # selected
                status[ci] = 'avoided'
            else:
                status[ci] = 'other'
        for i in range(n):
            reach = G.reach(i)
            rel = [ci for ci, c in enumerate(cycles) if set(c) & reach]
            if not rel or any(status[ci] != 'avoided' for ci in rel):
                continue
            stats['resolve_obligations'] = stats.get(
                'resolve_obligations', 0) + 1
            exp = sel.rc.cell(i)
            if exp is INDET:
                stats['resolve_indet'] = stats.get('resolve_indet', 0) + 1
                continue
            if not RefCalc.agrees(exp, normal['c%d' % i]):
                viol.append({
                    'clause': 'C10.resolve', 'cell': i,
                    'range_member': range_member_signature(G, cycles, rel),
                    'detail': 'every cycle through or upstream of cell %d '
                              'closes only through unselected branches, '
                              'expected %s got %s' % (i, RefCalc.tag(exp),
                                                      tag(i))})
    stats['static_cycles'] = stats.get('static_cycles', 0) + len(cycles)
    return viol, G


def absorbing_cycle(G, cycles, i):
    """Cell i lies on a static cycle one of whose edges passes through an
    error-absorbing position (value argument of IFERROR/IFNA, ISERROR, COUNT):
    the #CIRC! that marks the cut is swallowed inside the cycle."""
    for c in cycles:
        if i in c and any(
                any(o['icpt'] or o['sw'] for o in G.edge[u][v])
                for u, v in G.cycle_edges(c)):
            return True
    return False


def absorbs_range_on_cycle(G, i):
    """F-C10-5: cell i consumes, in an error-absorbing position (COUNT,
    ISERROR, IFERROR/IFNA value), a multi-cell rectangle whose RANGE NODE lies
    on a cycle (a member of the rectangle depends on an owner of it): the
    library marks the whole range node #CIRC!, so the absorbing consumer does
    not see the ordinary cells of the rectangle."""
    from ..cyc import occurrences
    from ..expr import rect_cells
    c = G.world['cells'][i]
    if 'f' not in c:
        return False
    for ref, conds, icpt, sw, agg, weak in occurrences(c['f']):
        if not (icpt or sw):
            continue
        r = ref if ref[0] == 'r' else G.world['names'][ref[1]]['t']
        cells = rect_cells(r)
        if len(cells) < 2:
            continue
        members = [G.idx.occupant(q) for q in cells]
        members = [m for m in members if m is not None]
        owners = [o for o, ms, rect in G.ranges if rect == tuple(r[1:])]
        for m in members:
            if set(owners) & G.reach(m):
                return True
    return False


def range_member_signature(G, cycles, rel):
    """F-C10-2: a cell of an avoidable cycle lies in the rectangle of a
    multi-cell range reference whose range node is itself on a cycle (some
    member of the rectangle depends on an owner of the rectangle)."""
    cyc_cells = set()
    for ci in rel:
        cyc_cells.update(cycles[ci])
    # (since the F-C10-2a fix the refusal needs the cut candidate itself to
    # read the cyclic cell THROUGH a multi-cell rectangle in its lazy branch)
    through_range = False
    for ci in rel:
        for u, v in G.cycle_edges(cycles[ci]):
            if not G.strict(u, v) and any(o['multi'] for o in G.edge[u][v]):
                through_range = True
    if not through_range:
        return False
    for owner, members, rect in G.ranges:
        if not (set(members) & cyc_cells):
            continue
        owners = [o for o, m, r in G.ranges if r == rect]
        for m in members:
            if set(owners) & G.reach(m):
                return True
    return False


def execute_world(trace):
    world = trace['world']
    log = EventLog()
    viol, stats = [], {'world_runs': 1, 'schedules': 0}
    budget = StepBudget(STEP_CAP)
    outcomes = []
    G = None
    for k, s in enumerate(trace['schedules']):
        try:
            obs, steps = run_schedule(world, s, log, budget)
        except StepBudgetExceeded:
            viol.append({'clause': 'C10.term', 'sched': k,
                         'detail': 'schedule %d exceeded %d steps' % (
                             k, STEP_CAP)})
            continue
        except Exception as ex:
            import traceback
            viol.append({'clause': 'C10.term', 'sched': k,
                         'detail': 'schedule %d raised %r' % (k, ex),
                         'tb': traceback.format_exc()[-1500:]})
            continue
        stats['schedules'] += 1
        stats['max_steps'] = max(stats.get('max_steps', 0), steps)
        st = {}
        vs, G = judge(world, obs, s['placement'], st)
        if k == 0:
            for a, b in st.items():
                stats[a] = stats.get(a, 0) + b
        for v in vs:
            v['sched'] = k
            viol.append(v)
        outcomes.append((k, obs.normal(names=False)))
    # cells whose value is touched by a known finding in some schedule (the
    # flagged cell and everything downstream of it): whether such a cell shows
    # #CIRC! or a value may legitimately differ between schedules - that IS
    # the known finding - and is reported under its signature, not as a new
    # order violation
    known_cells = {}
    if G is not None:
        for v in viol:
            sig = signature(trace, v)
            if sig and isinstance(v.get('cell'), int):
                for i in range(G.n):
                    if v['cell'] in G.reach(i):
                        known_cells.setdefault(i, sig)
    base = {}
    for k, normal in outcomes:
        # (a two-stage build calls the cycle solver twice, on different
        # graphs: where no clause fixes the outcome - #CIRC! out of caution or
        # a value that is a fixed point - it may differ from the one-stage
        # build; such schedules are compared among themselves and judged
        # clause by clause)
        sk = trace['schedules'][k]
        pk = digest([sk['placement'], sk.get('split'), sk.get('mid_calc')
                     if sk.get('split') else None])
        if pk not in base:
            base[pk] = (k, normal)
            continue
        k0, n0 = base[pk]
        diff = [key for key in sorted(normal) if normal[key] != n0[key]]
        if diff:
            key = diff[0]
            cells_ = [int(x[1:]) for x in diff if x[1:].isdigit()]
            viol.append({
                'clause': 'C10.order', 'sched': k, 'cell': key,
                # every differing cell is one a known finding already flags
                # in some schedule (or lies downstream of one): a two-stage
                # build gives the library a second go at a cut it refused
                'known_sig': known_cells[cells_[0]] if len(cells_) == len(
                    diff) and all(i in known_cells for i in cells_) else None,
                'detail': 'schedule %d: %s = %s but schedule %d (same '
                          'placement, other order / load path) gives %s '
                          '(cells that differ: %s)' % (
                              k, key, normal[key], k0, n0[key], diff)})
    ms = stats.pop('max_steps', 0)
    stats['max_steps_seen'] = {'max': ms}
    ncyc = stats.get('static_cycles', 0)
    if G is not None:
        kinds = {}
        cyc = G.cycles()
        if any(not G.all_strict(c) for c in cyc):
            kinds['worlds_with_guarded_cycle'] = 1
        oc = G.on_cycle()
        if any(set(m) & oc for _, m, _ in G.ranges):
            kinds['worlds_with_cycle_through_range'] = 1
        if len(cyc) > 1 and sum(len(c) for c in cyc) > len(oc):
            kinds['worlds_with_overlapping_cycles'] = 1
        stats.update(kinds)
    return {
        'violations': viol,
        'outcome': digest([o[1] for o in outcomes]) if outcomes else 'none',
        'cells': outcomes[0][1] if outcomes else {},
        'known_cells': {str(i): sg for i, sg in sorted(known_cells.items())},
        'events': log.digest(), 'stats': stats,
        'nontrivial': ncyc > 0 and stats['schedules'] >= 2,
        'case_key': digest([world, trace['schedules']]),
    }


def cross(trace, results):
    if trace is not None and trace.get('kind') == 'graph':
        return []
    hs = sorted(results)
    for h in hs[1:]:
        a, b = results[hs[0]], results[h]
        if b['outcome'] != a['outcome']:
            diff = [k for k in sorted(a.get('cells', {}))
                    if a['cells'][k] != b.get('cells', {}).get(k)]
            return [{'clause': 'C10.order',
                     'detail': 'outcome differs between PYTHONHASHSEED=%s and '
                               '%s (cells that differ in the first schedule: '
                               '%s)' % (hs[0], h, diff)}]
    return []


def signature(trace, v):
    if v['clause'] == 'C10.order' and v.get('known_sig'):
        return v['known_sig']
    if v['clause'] == 'C10.resolve' and v.get('range_member'):
        return 'C10.resolve/range-member-on-cycle'
    if v['clause'] == 'C10.strict' and v.get('icpt'):
        return 'C10.strict/cycle-through-iferror-value'
    if v['clause'] == 'C10.ordinary' and v.get('absorb'):
        return 'C10.strict/cycle-through-iferror-value'
    if v['clause'] == 'C10.ordinary' and v.get('range_on_cycle'):
        return 'C10.ordinary/absorbing-consumer-of-range-on-cycle'
    return None


def coverage_extra(stats):
    sl = stats.get('slices', {})
    return {'exhaustive_small_graphs': len(sl) == SLICES,
            'small_graph_slices_covered': sorted(int(k) for k in sl)}


def sample(trace):
    if trace.get('kind') == 'graph':
        return {'kind': 'graph', 'slice': trace['slice'],
                'names': trace['names'], 'random_graph': trace['random'][0]}
    return {'workbook': dict(dict_items(trace['world'],
                                        trace['schedules'][0]['placement'])),
            'schedules': [{k: v for k, v in s.items() if k != 'placement'}
                          for s in trace['schedules']]}


def shrink_candidates(trace):
    if trace.get('kind') == 'graph':
        graphs = trace.get('graphs')
        if graphs is None:
            graphs = [a for _, a in graphs_of_slice(trace['slice'])] + \
                trace['random']
        if len(graphs) > 1:
            for lo, hi in ((0, len(graphs) // 2),
                           (len(graphs) // 2, len(graphs))):
                t = dict(trace)
                t['graphs'] = graphs[lo:hi]
                yield 'graphs %d..%d' % (lo, hi), t
        elif graphs:
            g = graphs[0]
            for i in range(len(g)):
                for j in list(g[i]):
                    t = dict(trace)
                    t['graphs'] = [[[x for x in r if not (a == i and x == j)]
                                    for a, r in enumerate(g)]]
                    yield 'drop edge %d->%d' % (i, j), t
        return
    world, scheds = trace['world'], trace['schedules']
    if len(scheds) > 1:
        for k in reversed(range(len(scheds))):
            t = copy.deepcopy(trace)
            del t['schedules'][k]
            yield 'drop schedule %d' % k, t
    for desc, w, meta in shrinkers.world_candidates(world):
        t = copy.deepcopy(trace)
        t['world'] = w
        n_items = len(w['cells']) + len(w['names'])
        for s in t['schedules']:
            s['placement'] = shrinkers.fix_placement(s['placement'], meta)
            if 'order' in s:
                s['order'] = [x for x in s['order'] if x < n_items]
                s['order'] += [x for x in range(n_items)
                               if x not in s['order']]
        yield desc, t
    for k, s in enumerate(scheds):
        for desc, p in shrinkers.placement_candidates(world, s['placement']):
            t = copy.deepcopy(trace)
            t['schedules'][k]['placement'] = p
            yield 'schedule %d: %s' % (k, desc), t
        if s['kind'] == 'dict':
            ident = list(range(len(world['cells']) + len(world['names'])))
            if s.get('order') != ident:
                t = copy.deepcopy(trace)
                t['schedules'][k]['order'] = ident
                yield 'schedule %d: identity order' % k, t
            if s.get('split'):
                t = copy.deepcopy(trace)
                del t['schedules'][k]['split']
                yield 'schedule %d: one stage' % k, t
                if s.get('mid_calc'):
                    t = copy.deepcopy(trace)
                    t['schedules'][k]['mid_calc'] = False
                    yield 'schedule %d: no calculation between stages' % k, t
