"""Persistent worker interpreter: one PYTHONHASHSEED each, JSON lines over pipes.

stdin : {"id": n, "cmd": "run", "prop": "C03", "seed": s, "tier": "quick"}
        {"id": n, "cmd": "exec", "prop": "C03", "trace": {...}}
        {"id": n, "cmd": "canary", "prop": "C03", "name": "...", "seeds": [...]}
stdout: one JSON line per job (real stdout is kept for the protocol; anything
        the library prints goes to stderr).
"""
import faulthandler
import importlib
import json
import os
import sys
import time
import traceback

JOB_TIMEOUT = int(os.environ.get('DST_JOB_TIMEOUT', '120'))


def main():
    out = os.fdopen(os.dup(1), 'w')
    sys.stdout = sys.stderr
    sys.path.insert(0, os.path.dirname(os.path.dirname(
        os.path.abspath(__file__))))
    repo = os.environ.get('DST_REPO', '/repo')
    sys.path.insert(0, repo)
    import warnings
    warnings.filterwarnings('ignore')
    import formulas
    src = os.path.realpath(os.path.dirname(formulas.__file__))
    if not src.startswith(os.path.realpath(repo)):
        out.write(json.dumps({'id': -1, 'fatal': 'formulas imported from %s, '
                              'not from %s' % (src, repo)}) + '\n')
        out.flush()
        return 2
    import formulas.excel  # noqa
    import formulas.functions  # noqa
    formulas.functions.get_functions()
    hs = os.environ.get('PYTHONHASHSEED', 'random')
    out.write(json.dumps({'id': -1, 'ready': True, 'hashseed': hs,
                          'pid': os.getpid(), 'formulas': src}) + '\n')
    out.flush()
    mods = {}
    for line in sys.stdin:
        line = line.strip()
        if not line:
            continue
        job = json.loads(line)
        if job.get('cmd') == 'quit':
            break
        faulthandler.dump_traceback_later(JOB_TIMEOUT, exit=True)
        t0 = time.perf_counter()
        res = {'id': job['id'], 'hashseed': hs}
        try:
            prop = job['prop']
            if prop not in mods:
                mods[prop] = importlib.import_module('dst.props.' + prop)
            mod = mods[prop]
            # compiled oracle formulas are not kept across jobs: a run must
            # not depend on what ran before it in this interpreter
            from dst import oracle as _oracle
            _oracle._compile.cache_clear()
            if job['cmd'] == 'run':
                trace = mod.generate(job['seed'], job['tier'])
                r = mod.execute(trace, {'hashseed': hs})
                res.update(r)
                res['seed'] = job['seed']
                if isinstance(r.get('stats'), dict):
                    from dst.expr import world_features
                    r['stats']['world_features'] = world_features(trace)
                if r['violations'] or job.get('want_trace'):
                    res['trace'] = trace
            elif job['cmd'] == 'exec':
                r = mod.execute(job['trace'], {'hashseed': hs})
                res.update(r)
            elif job['cmd'] == 'seq':
                # a worker's history replayed in a fresh interpreter: every
                # run in order, the result of the last one is reported
                r = None
                for sd in job['seeds']:
                    _oracle._compile.cache_clear()
                    trace = mod.generate(sd, job['tier'])
                    r = mod.execute(trace, {'hashseed': hs})
                res.update(r)
                res['seed'] = job['seeds'][-1]
                res['trace'] = trace
            elif job['cmd'] == 'gen':
                res['trace'] = mod.generate(job['seed'], job['tier'])
            elif job['cmd'] == 'canary':
                from dst.canary import run_canary
                res.update(run_canary(prop, job['name'], job['seeds'],
                                      job['tier']))
            elif job['cmd'] == 'extra':
                res.update(getattr(mod, job['fn'])(*job.get('args', [])))
            else:
                res['error'] = 'unknown cmd %r' % job['cmd']
        except BaseException as ex:  # harness error, reported as such
            res['error'] = '%s: %s' % (type(ex).__name__, ex)
            res['tb'] = traceback.format_exc()[-3000:]
        faulthandler.cancel_dump_traceback_later()
        res['wall'] = round(time.perf_counter() - t0, 4)
        out.write(json.dumps(res) + '\n')
        out.flush()
    return 0


if __name__ == '__main__':
    sys.exit(main())
