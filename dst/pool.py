"""Pool of persistent worker interpreters, each with its own PYTHONHASHSEED."""
import json
import os
import queue
import subprocess
import sys
import threading
import time

HERE = os.path.dirname(os.path.abspath(__file__))
PY = sys.executable
# checks rebuild from /repo's working tree simply by importing it; VERIF_REPO
# points the workers at a scratch copy (mutant / fix trials) instead
REPO = os.environ.get('VERIF_REPO', '/repo')


class WorkerDied(Exception):
    pass


class Worker:
    def __init__(self, hashseed, repo=None, extra_env=None, tag=''):
        repo = repo or REPO
        env = dict(os.environ)
        env['PYTHONHASHSEED'] = str(hashseed)
        env['DST_REPO'] = repo
        env['PYTHONDONTWRITEBYTECODE'] = '1'
        env.pop('PYTHONPATH', None)
        if extra_env:
            env.update(extra_env)
        self.hashseed = str(hashseed)
        self.tag = tag
        self.err_path = os.path.join(
            HERE, '..', '.work', 'worker-%d-%s%s.err' % (
                os.getpid(), hashseed, tag))
        os.makedirs(os.path.dirname(self.err_path), exist_ok=True)
        self.err = open(self.err_path, 'w')
        self.p = subprocess.Popen(
            [PY, '-X', 'faulthandler', '-W', 'ignore',
             os.path.join(HERE, 'worker.py')],
            stdin=subprocess.PIPE, stdout=subprocess.PIPE, stderr=self.err,
            env=env, text=True, bufsize=1)
        self.lock = threading.Lock()
        self.ready = None
        self.history = []     # run seeds executed so far, in order

    def wait_ready(self):
        line = self.p.stdout.readline()
        if not line:
            raise WorkerDied('worker did not start: %s' % self.tail())
        msg = json.loads(line)
        if msg.get('fatal'):
            raise WorkerDied(msg['fatal'])
        self.ready = msg
        return msg

    def call(self, job):
        with self.lock:
            try:
                self.p.stdin.write(json.dumps(job) + '\n')
                self.p.stdin.flush()
                line = self.p.stdout.readline()
            except (BrokenPipeError, OSError):
                line = ''
            if not line:
                raise WorkerDied('worker (hashseed %s) died on job %s: %s' % (
                    self.hashseed, job.get('id'), self.tail()))
            return json.loads(line)

    def tail(self):
        try:
            self.err.flush()
            with open(self.err_path) as f:
                return f.read()[-2000:]
        except OSError:
            return ''

    def close(self):
        try:
            if self.p.poll() is None:
                try:
                    self.p.stdin.write('{"cmd": "quit"}\n')
                    self.p.stdin.flush()
                    self.p.stdin.close()
                except (BrokenPipeError, OSError):
                    pass
                try:
                    self.p.wait(timeout=3)
                except subprocess.TimeoutExpired:
                    self.p.kill()
        finally:
            self.err.close()
            try:
                os.remove(self.err_path)
            except OSError:
                pass


class Pool:
    """``n`` workers spread over ``hashseeds``; jobs are addressed to a hash
    seed and run by whichever worker of that seed is free."""

    def __init__(self, hashseeds, n=16, repo=None, extra_env=None):
        self.hashseeds = [str(h) for h in hashseeds]
        self.queues = {h: queue.Queue() for h in self.hashseeds}
        self.results = queue.Queue()
        self.workers = []
        self.threads = []
        self.dead = None
        per = max(1, n // len(self.hashseeds))
        for h in self.hashseeds:
            for k in range(per):
                self.workers.append(Worker(h, repo, extra_env, '-%d' % k))
        for w in self.workers:
            w.wait_ready()
        for w in self.workers:
            t = threading.Thread(target=self._serve, args=(w,), daemon=True)
            t.start()
            self.threads.append(t)
        self.next_id = 0
        self.inflight = 0

    def _serve(self, w):
        q = self.queues[w.hashseed]
        while True:
            job = q.get()
            if job is None:
                return
            if job.get('cmd') == 'run':
                w.history.append(job['seed'])
            try:
                res = w.call(job)
                if job.get('cmd') == 'run':
                    # what this interpreter had executed when it ran the job:
                    # part of the schedule if the code under test carries
                    # state from run to run
                    res['worker_history'] = list(w.history)
            except WorkerDied as ex:
                res = {'id': job['id'], 'hashseed': w.hashseed,
                       'error': 'WorkerDied: %s' % ex, 'died': True}
                self.results.put(res)
                return
            self.results.put(res)

    def submit(self, hashseed, job):
        job = dict(job)
        job['id'] = self.next_id
        self.next_id += 1
        self.inflight += 1
        self.queues[str(hashseed)].put(job)
        return job['id']

    def get(self, timeout=None):
        res = self.results.get(timeout=timeout)
        self.inflight -= 1
        return res

    def close(self):
        for h in self.hashseeds:
            for _ in self.workers:
                self.queues[h].put(None)
        for w in self.workers:
            w.close()


def one_shot(hashseed, job, repo=None, extra_env=None):
    """Run one job in a fresh interpreter."""
    w = Worker(hashseed, repo, extra_env, '-fresh%d' % (time.time_ns() % 10**6))
    try:
        w.wait_ready()
        job = dict(job)
        job.setdefault('id', 0)
        return w.call(job)
    finally:
        w.close()
