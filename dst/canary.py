"""Canaries: monkey-patched breakages of the real code, applied in a dedicated
one-shot worker; whether the property's check flags each is written to
evidence (coverage.canaries).  Canaries never influence the exit code.
"""
import importlib


def run(mod, patch, seeds, tier):
    """Apply ``patch()`` (in this fresh interpreter) and run the seeds."""
    patch()
    runs = 0
    for s in seeds:
        try:
            trace = mod.generate(s, tier)
            r = mod.execute(trace, {'hashseed': 'canary'})
        except BaseException as ex:  # a crash of the patched code counts
            return {'detected': True, 'after_runs': runs + 1,
                    'how': 'crash: %s' % type(ex).__name__}
        runs += 1
        vs = [v for v in r['violations']
              if not (hasattr(mod, 'signature') and mod.signature(trace, v))]
        if vs:
            return {'detected': True, 'after_runs': runs,
                    'how': vs[0]['clause']}
    return {'detected': False, 'after_runs': runs, 'how': None}


# ---------------------------------------------------------------- the patches
def c03_swap_indices():
    import formulas.ranges as R
    import formulas.cell as C

    def bad(base, i):
        r, c = orig(base, i)
        return (c, r) if (r.stop - r.start) != (c.stop - c.start) else (r, c)
    orig = R._get_indices_intersection
    R._get_indices_intersection = bad
    C._get_indices_intersection = bad


def c03_no_replace_empty():
    import formulas.cell as C
    C.replace_empty = lambda x, empty=0: x


def c03_skip_last_range():
    from formulas.excel import ExcelModel
    import formulas.excel as X
    orig = X.RangesAssembler.add
    state = {'n': 0}

    def add(self, dsp):
        state['n'] += 1
        if state['n'] % 4 == 0 and len(self.missing) > 1:
            return    # every fourth partly blank range is never assembled
        return orig(self, dsp)
    X.RangesAssembler.add = add


def c07_assembler_caches_output():
    import formulas.cell as C
    orig = C.RangesAssembler.__call__

    def call(self, *cells):
        if getattr(self, '_cached', None) is None:
            self._cached = orig(self, *cells)
        return self._cached.copy()
    C.RangesAssembler.__call__ = call


def c07_stale_solution_as_inputs():
    from formulas.excel import ExcelModel
    import schedula as sh

    def calculate(self, *args, **kwargs):
        inputs = dict(kwargs.get('inputs') or (args[0] if args else {}) or {})
        prev = getattr(self, '_prev', {})
        for k, v in prev.items():
            inputs.setdefault(k, v)
        kwargs['inputs'] = inputs
        sol = self.dsp.dispatch(*args[1:], **kwargs)
        # remember constants supplied last time (stale overrides leak)
        self._prev = {k: v for k, v in (kwargs.get('inputs') or {}).items()
                      if not isinstance(k, sh.Token)}
        return sol
    ExcelModel.calculate = calculate


def c07_inv_writes_defaults():
    """A value supplied through a range / name is written into the default
    values of the member cells (as if the inverse assembler persisted it)."""
    from formulas.excel import ExcelModel
    import numpy as np

    def calculate(self, *args, **kwargs):
        sol = self.dsp.dispatch(*args, **kwargs)
        inputs = kwargs.get('inputs') or (args[0] if args else None) or {}
        for k in inputs:
            for c in self.dsp.nodes.get(k, {}).get('inv-data', ()):
                if c in self.dsp.default_values and c in sol:
                    v = sol[c].value if hasattr(sol[c], 'value') else sol[c]
                    if np.size(v) == 1:
                        self.dsp.default_values[c]['value'] = \
                            np.ravel(v)[0]
        return sol
    ExcelModel.calculate = calculate


def c10_if_always_cuttable():
    from formulas.functions import get_functions
    import formulas.functions.logic as L
    L.FUNCTIONS['IF']['solve_cycle'] = lambda *a: True
    get_functions()['IF']['solve_cycle'] = lambda *a: True


def c10_circ_distance_zero():
    import formulas.excel as X
    import schedula as sh
    orig = sh.inf

    class Inf0:
        pass
    real = X.sh.inf

    def fake(a, b):
        return real(0, b)
    # only inside solve_circular: the #CIRC! defaults fire at distance 0
    src = X.ExcelModel.solve_circular

    def solve(self):
        X.sh.inf = fake
        try:
            return src(self)
        finally:
            X.sh.inf = real
    X.ExcelModel.solve_circular = solve


def c10_cycles_forget_closed():
    import formulas.excel.cycle as Cy
    src = Cy.simple_cycles
    import inspect
    code = inspect.getsource(src).replace('closed.update(path)', 'pass')
    ns = dict(Cy.__dict__)
    exec(code, ns)
    Cy.simple_cycles = ns['simple_cycles']


def c13_memoise_impure():
    import formulas.functions as F
    import functools
    import schedula as sh

    def wrap_impure_func(func):
        memo = []

        def wrapper(compiling, *args, **kwargs):
            if compiling:
                return sh.NONE
            if not memo:
                memo.append(func(*args, **kwargs))
            return memo[0]
        return functools.update_wrapper(wrapper, func)
    import formulas.functions.date as D
    import formulas.functions.math as M
    fs = F.get_functions()
    for name, mod, raw in (('NOW', D, D.xnow), ('TODAY', D, D.xtoday)):
        new = {'extra_inputs': mod.FUNCTIONS[name]['extra_inputs'],
               'function': wrap_impure_func(F.wrap_func(raw))}
        mod.FUNCTIONS[name] = new
        fs[name] = new


def c13_now_not_impure():
    import formulas.functions as F
    import formulas.functions.date as D
    fs = F.get_functions()
    fs['NOW'] = D.FUNCTIONS['NOW'] = F.wrap_func(D.xnow)


def c13_rand_from_module_state():
    import formulas.functions as F
    import formulas.functions.math as M
    import numpy as np
    state = {'v': None}

    def rand():
        if state['v'] is None:
            state['v'] = float(np.random.rand())
        return state['v']
    fs = F.get_functions()
    new = {'extra_inputs': M.FUNCTIONS['RAND']['extra_inputs'],
           'function': F.wrap_impure_func(F.wrap_func(rand))}
    fs['RAND'] = M.FUNCTIONS['RAND'] = new


def c14_only_filenotfound():
    import formulas.excel as X
    import inspect
    src = inspect.getsource(X.ExcelModel.complete)
    src = src.replace('except Exception as ex:  # Missing excel file or sheet.',
                      'except (FileNotFoundError, KeyError) as ex:')
    import textwrap
    ns = dict(X.__dict__)
    exec(textwrap.dedent(src), ns)
    X.ExcelModel.complete = ns['complete']


def c14_reraise_notimplemented():
    import formulas.cell as C
    import schedula as sh

    def call(self, *args, **kwargs):
        return self.func(*self.parse_args(*args),
                         **self.parse_kwargs(**kwargs))
    C.CellWrapper.__call__ = call


def c14_missing_ref_keeps_key():
    import formulas.cell as C
    import schedula as sh

    def _missing_ref(self, inp, k):
        sh.get_nested_dicts(inp, k, default=list).append(k)
    C.Cell._missing_ref = _missing_ref


def c17_deepcopy_shares_dispatcher():
    from formulas.excel import ExcelModel

    def dc(self, memo):
        new = ExcelModel.__new__(ExcelModel)
        new.dsp = self.dsp            # not copied at all
        new.cells, new.books, new.basedir = {}, {}, self.basedir
        return new
    ExcelModel.__deepcopy__ = dc


def c17_assembler_shared_output():
    import formulas.cell as C
    import numpy as np
    shared = {}
    orig = C.RangesAssembler.__call__

    def call(self, *cells):
        out = orig(self, *cells)
        key = self.output
        if key in shared and shared[key].shape == out.shape:
            prev = shared[key]
            shared[key] = out
            # every second call returns the array of the previous caller
            self._flip = not getattr(self, '_flip', False)
            if self._flip is False:
                return prev
        shared[key] = out
        return out
    C.RangesAssembler.__call__ = call


def c17_getstate_drops_defaults_of_added_cells():
    """Pickled state forgets the default values set after construction
    (copies of a model to which a cell was added lose that cell's inputs)."""
    from formulas.excel import ExcelModel
    import copy as _c
    orig_from_dict = ExcelModel.from_dict

    def from_dict(self, adict, *a, **kw):
        n = getattr(self, '_n_from_dict', 0)
        self._n_from_dict = n + 1
        if n >= 1:
            self._late = getattr(self, '_late', []) + [k for k in adict]
        return orig_from_dict(self, adict, *a, **kw)

    def getstate(self):
        dsp = _c.copy(self.dsp)
        late = getattr(self, '_late', [])
        if late:
            dsp = self.dsp.get_sub_dsp([
                k for k in self.dsp.nodes
                if k not in late and not any(
                    x in str(k) for x in late)])
        return {'dsp': dsp, 'cells': {}, 'books': {}}
    ExcelModel.from_dict = from_dict
    ExcelModel.__getstate__ = getstate


PATCHES = {
    'C03': {'swap-row-col-in-range-intersection': c03_swap_indices,
            'blank-not-replaced-by-zero': c03_no_replace_empty,
            'range-assembler-skips-some-ranges': c03_skip_last_range},
    'C07': {'range-assembler-caches-its-first-output':
                c07_assembler_caches_output,
            'previous-inputs-leak-into-next-calculation':
                c07_stale_solution_as_inputs,
            'range-override-persists-into-default-values':
                c07_inv_writes_defaults},
    'C10': {'IF-always-cuttable': c10_if_always_cuttable,
            'circ-default-at-distance-0': c10_circ_distance_zero,
            'simple_cycles-forgets-closed-paths': c10_cycles_forget_closed},
    'C13': {'impure-wrapper-memoises-first-result': c13_memoise_impure,
            'NOW-registered-as-pure-function': c13_now_not_impure,
            'RAND-reads-a-module-level-value': c13_rand_from_module_state},
    'C14': {'complete-catches-only-FileNotFoundError': c14_only_filenotfound,
            'CellWrapper-does-not-map-NotImplementedError':
                c14_reraise_notimplemented,
            'missing-reference-keeps-its-key': c14_missing_ref_keeps_key},
    'C17': {'deepcopy-shares-the-dispatcher': c17_deepcopy_shares_dispatcher,
            'assembler-output-shared-between-objects':
                c17_assembler_shared_output,
            'copies-lose-cells-added-after-construction':
                c17_getstate_drops_defaults_of_added_cells},
}


def run_canary(prop, name, seeds, tier):
    mod = importlib.import_module('dst.props.' + prop)
    return run(mod, PATCHES[prop][name], seeds, tier)
